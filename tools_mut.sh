#!/bin/sh
# usage: tools_mut.sh <patchfile|-e 'sed expr' file> -- check args...   (development helper: scratch copy of /repo under /tmp)
set -e
W=/tmp/mut/w$$
rm -rf $W; mkdir -p $W
rsync -a --exclude .git --exclude tests/data /repo/ $W/
ln -s /repo/tests/data $W/tests/data
if [ "$1" = "-e" ]; then sed -i "$2" $W/$3; shift 3; else (cd $W && patch -p1 -s < $1); shift 1; fi
shift
(cd $W && diff -ru /repo/demeter demeter | head -30) || true
cd /verif && VERIF_REPO=$W ./check "$@" --no-evidence; rc=$?
rm -rf $W
exit $rc
