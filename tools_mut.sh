#!/bin/sh
# development helper: scratch copy of /repo under /tmp, one textual replacement or a patch, run a check against it.
# usage: tools_mut.sh -r <file> <old> <new> -- <check args>   |   tools_mut.sh <patchfile> -- <check args>
W=/tmp/mut/w$$
rm -rf $W; mkdir -p $W
rsync -a --exclude .git --exclude tests/data /repo/ $W/
ln -s /repo/tests/data $W/tests/data
if [ "$1" = "-r" ]; then
  python3 - "$W/$2" "$3" "$4" <<'PY' || { rm -rf $W; exit 9; }
import sys
p,old,new=sys.argv[1:4]
s=open(p).read()
if old not in s: print("MUTATION TEXT NOT FOUND"); sys.exit(1)
open(p,'w').write(s.replace(old,new,1))
PY
  shift 4
else (cd $W && patch -p1 -s < $1) || { rm -rf $W; exit 9; }; shift 1; fi
shift
cd /verif && VERIF_REPO=$W ./check "$@" --no-evidence; rc=$?
rm -rf $W
exit $rc
