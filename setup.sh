#!/bin/sh
# Build the overlay venv (offline): /venv's packages + /repo on the path, plus z3/crosshair/cvc5 from the wheelhouse.
set -e
cd "$(dirname "$0")"
if [ ! -x .venv/bin/python ] || ! .venv/bin/python -c "import z3, pandas, demeter" >/dev/null 2>&1; then
  rm -rf .venv
  /venv/bin/python -m venv .venv
  printf "import site; site.addsitedir('/venv/lib/python3.12/site-packages')\n/repo\n" > .venv/lib/python3.12/site-packages/_overlay.pth
  PIP_NO_INDEX=1 .venv/bin/pip install -q --no-index --find-links /opt/veriftools/wheels z3-solver crosshair-tool cvc5 jsonschema >/dev/null 2>&1 || \
  PIP_NO_INDEX=1 .venv/bin/pip install -q --no-index --find-links /opt/veriftools/wheels z3-solver
fi
.venv/bin/python -c "import z3, pandas, demeter; print('setup ok: z3', z3.get_version_string())"
