#!/bin/sh
# run the pinned baseline in /repo (guard off) and compare with BASELINE.json's stable_pass list
cd /repo && /venv/bin/python -m pytest -q -p no:cacheprovider --timeout=900 --continue-on-collection-errors --junitxml=/tmp/base.xml >/dev/null 2>&1
python3 - <<'PY'
import json, xml.etree.ElementTree as ET
b=json.load(open('/root/.vp/BASELINE.json'))
ok=set()
for tc in ET.parse('/tmp/base.xml').getroot().iter('testcase'):
    if not list(tc):
        ok.add(tc.get('classname')+'::'+tc.get('name'))
missing=[t for t in b['stable_pass'] if t not in ok]
print('stable_pass', len(b['stable_pass']), 'still passing', len(b['stable_pass'])-len(missing), 'missing', missing, 'extra passing', sorted(ok-set(b['stable_pass'])))
PY
rm -f /tmp/base.xml
