#!/bin/sh
# usage: seed_verify.sh <PID> <mN>   -- confirm a sub-agent's seeded change in the scratch worktree /tmp/wt/<PID>:
#   patch applies; demo fails with it and passes without; every stable_pass test of the pinned suite still passes with it.
PID=$1; M=$2; WT=${WTROOT:-/tmp/wt}/$PID; AR=${AROOT:-/tmp/agent}_$PID; A=$AR/$M
cd $WT || exit 9
git checkout -q -- . ; git clean -fdq
git apply --check $A/patch.diff || { echo "$PID/$M: PATCH DOES NOT APPLY"; exit 1; }
PYTHONPATH=$WT /venv/bin/python $A/demo.py >$AR/$M.demo_clean.log 2>&1; rc_clean=$?
git apply $A/patch.diff
PYTHONPATH=$WT /venv/bin/python $A/demo.py >$AR/$M.demo_mut.log 2>&1; rc_mut=$?
/venv/bin/python -m pytest -q -p no:cacheprovider --timeout=900 --continue-on-collection-errors --junitxml=$AR/$M.junit.xml >/dev/null 2>&1
git checkout -q -- . ; git clean -fdq
python3 - $PID $M $rc_clean $rc_mut <<'PY'
import json, sys, xml.etree.ElementTree as ET
pid, m, rc_clean, rc_mut = sys.argv[1], sys.argv[2], int(sys.argv[3]), int(sys.argv[4])
b = json.load(open('/root/.vp/BASELINE.json'))
ok = set()
for tc in ET.parse(f'{__import__("os").environ.get("AROOT","/tmp/agent")}_{pid}/{m}.junit.xml').getroot().iter('testcase'):
    if not list(tc):
        ok.add(tc.get('classname') + '::' + tc.get('name'))
missing = [t for t in b['stable_pass'] if t not in ok]
good = rc_clean == 0 and rc_mut != 0 and not missing
print(f"{pid}/{m}: demo_clean_rc={rc_clean} demo_mut_rc={rc_mut} stable_pass_missing={len(missing)} -> {'CONFIRMED' if good else 'REJECTED'}")
json.dump({"demo_rc_unchanged_tree": rc_clean, "demo_rc_with_change": rc_mut, "stable_pass_missing_with_change": missing, "confirmed": good}, open(f'{__import__("os").environ.get("AROOT","/tmp/agent")}_{pid}/{m}.verify.json', 'w'))
PY
