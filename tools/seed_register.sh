#!/bin/sh
# usage: seed_register.sh <PID> <mN>  -- verify a sub-agent's change (seed_verify.sh) and, if confirmed, store it under /verif/seeded/<PID>-<mN>/
PID=$1; M=$2
/verif/tools/seed_verify.sh $PID $M || exit 1
python3 - $PID $M <<'PY'
import json,sys,os,shutil
pid,m=sys.argv[1],sys.argv[2]
v=json.load(open(f'{os.environ.get("AROOT","/tmp/agent")}_{pid}/{m}.verify.json'))
if not v["confirmed"]:
    print("not confirmed; not stored"); sys.exit(0)
d=f'/verif/seeded/{pid}-{m}'; os.makedirs(d,exist_ok=True)
for f in ("patch.diff","demo.py","NOTES.md"):
    shutil.copy(f'{os.environ.get("AROOT","/tmp/agent")}_{pid}/{m}/{f}', d)
import subprocess
base=subprocess.run(["git","-C",f"{os.environ.get('WTROOT','/tmp/wt')}/{pid}","log","--oneline","-1"],capture_output=True,text=True).stdout.strip()
meta={"property":pid,"id":f"{pid}-{m}","origin":"independent sub-agent given only the property text and a scratch worktree (nothing from /verif)",
 "base_commit":base,"needs_to_manifest":"see NOTES.md (trigger section)",
 "confirmed_by":f"tools/seed_verify.sh in scratch worktree {os.environ.get('WTROOT','/tmp/wt')}/{pid}: git apply patch.diff; demo.py exit code with / without the change; pinned pytest suite with the change compared with BASELINE.json stable_pass",
 "verify_result":v}
json.dump(meta,open(d+'/meta.json','w'),indent=1)
PY
