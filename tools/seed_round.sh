#!/bin/sh
# usage: WTROOT=/tmp/wt3 AROOT=/tmp/agent3 seed_round.sh <PID> [mN ...]  -- register a sub-agent's changes and run the property's quick check against each
PID=$1; shift
MS=${@:-"m4 m5"}
for m in $MS; do
  /verif/tools/seed_register.sh $PID $m
  [ -d /verif/seeded/$PID-$m ] && /verif/tools/seed_run.sh $PID-$m quick | tee -a /verif/seeded/ROUNDS_3_4.txt
done
