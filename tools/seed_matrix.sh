#!/bin/sh
# usage: seed_matrix.sh [tier]  -- run the check of each seed's property against a scratch copy of /repo with the seed applied; writes seeded/MATRIX.txt
T=${1:-quick}
OUT=/verif/seeded/MATRIX.txt
: > $OUT.tmp
for d in /verif/seeded/C*/; do
  s=$(basename $d)
  /verif/tools/seed_run.sh $s $T | cut -c1-260 >> $OUT.tmp
done
mv $OUT.tmp $OUT
