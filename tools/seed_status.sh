#!/bin/sh
# usage: seed_status.sh  -- for every stored seed: does the patch still apply to /repo's current tree, and does its demo still fail with it?
for d in /verif/seeded/*/; do
  s=$(basename $d); W=/tmp/mut/st_$s; rm -rf $W; mkdir -p $W
  rsync -a --exclude .git --exclude tests/data /repo/ $W/; ln -s /repo/tests/data $W/tests/data
  if (cd $W && patch -p1 -s --dry-run < $d/patch.diff >/dev/null 2>&1); then
    (cd $W && patch -p1 -s < $d/patch.diff)
    (cd $W && PYTHONPATH=$W timeout 300 /venv/bin/python $d/demo.py >/dev/null 2>&1); rc=$?
    echo "$s applies=yes demo_rc_with_change=$rc"
  else
    echo "$s applies=no"
  fi
  rm -rf $W
done
