#!/bin/sh
# usage: seed_run.sh <seed-dir-name> [tier]   -- run the property's check against a scratch copy of /repo with the seeded patch applied
S=$1; T=${2:-quick}; P=$(echo $S | cut -d- -f1)
cd /verif
out=$(./tools_mut.sh /verif/seeded/$S/patch.diff -- $P --tier $T 2>&1); rc=$?
nv=$(echo "$out" | grep -c '^VIOLATION')
echo "$S tier=$T exit=$rc violations=$nv :: $(echo "$out" | grep '^VIOLATION' | head -2 | cut -c1-160 | tr '\n' '|') $(echo "$out" | grep -A1 '^VIOLATION' | grep obligation | head -2 | cut -c1-200 | tr '\n' '|') $(echo "$out" | grep 'HARNESS-ERROR' | head -1 | cut -c1-200)"
