"""Scenario runner shared by all property checks.

A *scenario* is a Python function `fn(ctx)` that drives the real demeter code once.  It is executed
  * symbolically (mode "sym"): `ctx.dec/int_/flt/boolean` return proxies, `ctx.check` asks z3 to refute the
    negated obligation under the current path condition, all feasible paths are enumerated;
  * concretely (mode "conc"), in a fresh interpreter *without* shadows, on a model returned by z3: this is the
    replay of a counterexample and the per-path witness run (DESIGN.md 6.3 / 6.4).
The same scenario code serves both, so the concrete oracle is the symbolic oracle evaluated on numbers.
"""
from __future__ import annotations

import decimal
import fractions
import json
import os
import subprocess
import sys
import time
import traceback
from dataclasses import dataclass, field
from decimal import Decimal

HARNESS_ERROR = 3
VERIF_DIR = os.path.dirname(os.path.dirname(os.path.abspath(__file__)))
REPO = os.environ.get("VERIF_REPO", "/repo")


class Reject(Exception):
    """raised by scenario code to signal that the scenario does not apply on this path (not an error)"""


@dataclass
class Scenario:
    name: str
    fn: callable
    params: dict = field(default_factory=dict)
    shadows: tuple = ()
    entry: tuple = ()  # names of the demeter functions this scenario drives (documentation for evidence)
    max_paths: int = 4000
    canary: str | None = None  # name of an obligation that MUST be refuted (reachability twin)
    expect_outcomes: tuple = ()  # outcome prefixes that must each be seen on at least one path
    witness_cap: int = 24
    query_timeout_ms: int = 10000
    time_budget_s: float = 240.0
    nlsat: bool = True  # try the non-incremental nlsat tactic first (pure real arithmetic); switch off for integer-heavy scenarios
    round_mode: str = "exact"  # "uf": roundings are uninterpreted functions with bracketing axioms (over-approximation)
    relax_inputs: bool = False  # with relax_int: integer inputs lose integrality too (witness / replay values are floored)
    float_model: bool = False  # the code under test computes in IEEE floats, modelled as reals (DESIGN 6.1): a path witness that sits
    #                            on a comparison's knife edge may take the other branch concretely -- treated like relax_int by the driver
    relax_int: bool = False  # int()/floor//`//` as bracketed reals (over-approximation): proofs are sound, refutations and path
    #                          witnesses are candidates only (a non-reproducing one is counted inconclusive, not an encoding error)


# --------------------------------------------------------------------------------------------- context


def frac_to_dec(f):
    with decimal.localcontext() as c:
        c.prec = 60
        return Decimal(f.numerator) / Decimal(f.denominator)


class Ctx:
    """handed to scenario functions"""

    def __init__(self, mode, scenario, ex=None, values=None):
        self.mode = mode
        self.sym = mode == "sym"
        self.sc = scenario
        self.p = scenario.params
        self.ex = ex
        self.values = values or {}
        self.vars = {}  # name -> (proxy, kind)
        self.obligations = []  # dicts
        self.observations = []  # (name, value)
        self.outcomes = []
        self.failed = []  # concrete mode: names of failed checks
        self.notes = []

    # -- variables
    def _mk(self, name, kind, lo, hi, lo_open=False, hi_open=False):
        if name in self.vars:
            raise RuntimeError(f"duplicate variable {name}")
        if self.sym:
            import z3
            from . import symx

            # relaxed-integer scenarios may also drop the integrality of integer INPUTS (pure real arithmetic for nlsat)
            e = z3.Int(name) if kind == symx.INT and not (symx.RELAX_INT and getattr(self.sc, "relax_inputs", False)) else z3.Real(name)
            v = symx.Sym(e, kind)
            if lo is not None:
                self.ex.add(e > symx._lift(lo)[0] if lo_open else e >= symx._lift(lo)[0])
            if hi is not None:
                self.ex.add(e < symx._lift(hi)[0] if hi_open else e <= symx._lift(hi)[0])
            self.vars[name] = (v, kind)
            return v
        raw = self.values[name]
        if kind == "int":
            v = int(raw) if "/" not in str(raw) else int(fractions.Fraction(raw))  # relaxed inputs: floor of a rational model value
        else:
            f = fractions.Fraction(raw)
            v = frac_to_dec(f) if kind == "dec" else float(f)
        self.vars[name] = (v, kind)
        return v

    def dec(self, name, lo=None, hi=None, lo_open=False, hi_open=False):
        return self._mk(name, "dec", lo, hi, lo_open, hi_open)

    def flt(self, name, lo=None, hi=None, lo_open=False, hi_open=False):
        return self._mk(name, "float", lo, hi, lo_open, hi_open)

    def int_(self, name, lo=None, hi=None):
        return self._mk(name, "int", lo, hi)

    def boolean(self, name):
        if self.sym:
            import z3
            from . import symx

            b = symx.SymBool(z3.Bool(name))
            self.vars[name] = (b, "bool")
            return b
        v = bool(self.values[name]) if not isinstance(self.values[name], str) else self.values[name] == "True"
        self.vars[name] = (v, "bool")
        return v

    def choose(self, name, n):
        """structural fork decided by the harness: returns a concrete int in [0, n)"""
        if self.sym:
            v = self.int_(name, 0, n - 1)
            for k in range(n - 1):
                if bool(v == k):
                    return k
            return n - 1
        k = int(self.values[name])
        self.vars[name] = (k, "int")
        return k

    def flag(self, name):
        """structural boolean fork -> concrete bool"""
        return self.choose(name, 2) == 1

    def assume(self, cond):
        if self.sym:
            from . import symx

            if isinstance(cond, symx.SymBool):
                self.ex.add(cond.e)
                # the assumption may make the path infeasible
                if self.ex.check() == "unsat":
                    raise symx.Infeasible("assumption")
            elif not cond:
                raise symx.Infeasible("assumption false")
        else:
            if not cond:
                raise Reject("assumption does not hold on concrete values")

    # -- obligations
    def check(self, name, cond, detail=None, show=None):
        """obligation: under the current path condition `cond` must hold"""
        if self.sym:
            from . import symx

            status, model = self.ex.prove(cond)
            ob = {"name": name, "status": status}
            if status == "refuted" and show and os.environ.get("VERIF_SHOW"):
                try:
                    ob["show"] = {k: str(float(symx.eval_any(model, v))) for k, v in show.items()}
                except Exception as e:
                    ob["show"] = f"<{e}>"
            if status == "refuted":
                import z3

                neg = z3.Not(cond.e) if isinstance(cond, symx.SymBool) else None
                if not os.environ.get("VERIF_NO_NICE"):
                    model = self.ex.nice_model(self._z3_inputs(), extra=neg, model=model) or model
                ob["model"] = self._model_values(model)
            if detail:
                ob["detail"] = detail
            self.obligations.append(ob)
            return status == "valid"
        ok = bool(cond)
        self.obligations.append({"name": name, "status": "valid" if ok else "refuted"})
        if not ok:
            self.failed.append(name)
        return ok

    def check_all(self, items):
        """items: list of (name, cond). One solver query for the conjunction; individual queries only if it fails."""
        if not self.sym:
            return all([self.check(n, c) for n, c in items])
        from . import symx
        import z3

        pend = []
        for n, c in items:
            if isinstance(c, bool) and c:
                self.obligations.append({"name": n, "status": "valid"})
            elif isinstance(c, symx.SymBool):
                e = z3.simplify(c.e)
                if z3.is_true(e):
                    self.obligations.append({"name": n, "status": "valid"})
                else:
                    pend.append((n, symx.SymBool(e)))
            else:
                pend.append((n, c))
        if not pend:
            return True
        if all(isinstance(c, symx.SymBool) for _, c in pend) and len(pend) > 1:
            status, _ = self.ex.prove(symx.SymBool(z3.And(*[c.e for _, c in pend])))
            if status == "valid":
                for n, _ in pend:
                    self.obligations.append({"name": n, "status": "valid"})
                return True
        ok = True
        for n, c in pend:
            ok &= self.check(n, c)
        return ok

    def observe(self, name, value):
        self.observations.append((name, value))

    def outcome(self, s):
        self.outcomes.append(s)

    def note(self, s):
        self.notes.append(s)

    def _z3_inputs(self):
        return [v.e for v, kind in self.vars.values()]

    def _model_values(self, model):
        from . import symx

        out = {}
        for n, (v, kind) in self.vars.items():
            val = symx.eval_any(model, v)
            out[n] = str(val)
        return out

    # -- tolerant comparisons usable in both modes
    def close(self, a, b, rel=None, abs_=None):
        """|a-b| <= abs_ + rel*max(|a|,|b|) ; defaults: exact in sym mode is NOT assumed -- give tolerances"""
        from . import symx

        if self.sym and isinstance(a, symx.Sym) and isinstance(b, symx.Sym):
            import z3

            ea, eb = a.e, b.e
            if ea.sort() != eb.sort():
                ea, eb = symx._real(ea), symx._real(eb)
            if z3.is_true(z3.simplify(ea == eb)):
                return True
        if not symx.is_sym(a) and not symx.is_sym(b):
            if isinstance(a, fractions.Fraction) or isinstance(b, fractions.Fraction):
                # exact oracle evaluation in concrete mode
                fa, fb = fractions.Fraction(a), fractions.Fraction(b)
                bound = fractions.Fraction(0)
                if abs_ is not None:
                    bound += fractions.Fraction(abs_)
                if rel is not None:
                    bound += fractions.Fraction(rel) * max(abs(fa), abs(fb))
                return abs(fa - fb) <= bound
            try:
                if a == b:
                    return True
                if not (Decimal(a).is_finite() and Decimal(b).is_finite()):
                    return False
            except Exception:
                pass
        elif not symx.is_sym(a) or not symx.is_sym(b):
            c = a if not symx.is_sym(a) else b
            if isinstance(c, (Decimal, float)) and not Decimal(c).is_finite():
                return False  # a finite symbolic value never equals inf/nan
        d = symx.sabs(a - b)
        bound = 0
        if abs_ is not None:
            bound = bound + abs_
        if rel is not None:
            bound = bound + rel * symx.smax(symx.sabs(a), symx.sabs(b))
        return d <= bound


# --------------------------------------------------------------------------------------------- symbolic run of one scenario


def _profile_functions(fn):
    """run fn while collecting demeter functions entered"""
    seen = set()
    root = os.path.join(REPO, "demeter")

    def prof(frame, event, arg):
        if event == "call":
            co = frame.f_code
            if co.co_filename.startswith(root):
                seen.add(f"{os.path.relpath(co.co_filename, REPO)}:{co.co_qualname}")

    sys.setprofile(prof)
    try:
        return fn(), seen
    finally:
        sys.setprofile(None)


def run_symbolic(sc: Scenario, tier: str):
    import logging
    import z3

    logging.disable(logging.WARNING)
    from . import symx, shadow

    shadow.install(sc.shadows)
    symx.ROUND_MODE = sc.round_mode
    symx.RELAX_INT = sc.relax_int
    symx.NLSAT = "1" if sc.nlsat else "0"
    ex = symx.Explorer(max_paths=sc.max_paths, query_timeout_ms=sc.query_timeout_ms)
    ex.deadline = time.time() + sc.time_budget_s * (1 if tier == "quick" else 4)
    symx.CUR = ex
    paths = []
    functions = set()
    first = [True]
    t0 = time.time()

    def one_path():
        ctx = Ctx("sym", sc, ex=ex)
        rec = {"exception": None}
        try:
            if first[0]:
                first[0] = False
                _, seen = _profile_functions(lambda: sc.fn(ctx))
                functions.update(seen)
            else:
                sc.fn(ctx)
        except symx.PathAbort:
            raise
        except Reject as e:
            rec["exception"] = f"Reject: {e}"
        except Exception as e:  # an exception escaping the scenario is an observation, decided by the witness run
            rec["exception"] = f"{type(e).__name__}"
            rec["exception_text"] = "".join(traceback.format_exception_only(type(e), e)).strip()[:300]
            rec["exception_tb"] = traceback.format_exc()[-1500:]
        # witness model for this path
        m = ex.model()
        if m is not None:
            m = ex.nice_model(ctx._z3_inputs(), model=m) or m
        rec["witness"] = ctx._model_values(m) if m is not None else None
        if m is not None:
            obs = []
            for n, v in ctx.observations:
                try:
                    obs.append((n, str(symx.eval_any(m, v))))
                except Exception as e:
                    obs.append((n, f"<eval error {e}>"))
            rec["observations"] = obs
        rec["outcomes"] = ctx.outcomes
        rec["obligations"] = ctx.obligations
        rec["uncertain"] = ex.path_uncertain
        rec["notes"] = ctx.notes
        return rec

    results, complete = ex.run(one_path)
    for status, trace, r in results:
        if status == "ok":
            r["decisions"] = len(trace)
            paths.append(r)
        else:
            paths.append({"abort": r, "decisions": len(trace), "obligations": [], "outcomes": [], "witness": None})
    return {
        "scenario": sc.name,
        "paths": paths,
        "complete": complete,
        "queries": ex.n_queries,
        "solver_s": round(ex.solver_s, 3),
        "wall_s": round(time.time() - t0, 3),
        "functions": sorted(functions),
        "shadowed": {k: v for k, v in shadow.SHADOWED.items()},
        "unknown_branches": ex.n_unknown_branch,
    }


# --------------------------------------------------------------------------------------------- concrete run (subprocess side)


def run_concrete(sc: Scenario, values: dict):
    import logging

    logging.disable(logging.WARNING)
    ctx = Ctx("conc", sc, values=values)
    rec = {"exception": None}
    try:
        sc.fn(ctx)
    except Reject as e:
        rec["exception"] = f"Reject: {e}"
    except Exception as e:
        rec["exception"] = f"{type(e).__name__}"
        rec["exception_text"] = "".join(traceback.format_exception_only(type(e), e)).strip()[:300]
        rec["exception_tb"] = traceback.format_exc()[-1500:]
    rec["outcomes"] = ctx.outcomes
    rec["failed"] = ctx.failed
    rec["observations"] = [(n, str(v)) for n, v in ctx.observations]
    rec["checked"] = [o["name"] for o in ctx.obligations]
    return rec


def concrete_batch(prop_module: str, tier: str, scenario_name: str, jobs: list):
    """run in a clean interpreter: python -m vf.concrete <json>; here is the in-process implementation"""
    import importlib

    mod = importlib.import_module(prop_module)
    scs = {s.name: s for s in mod.scenarios(tier)}
    sc = scs[scenario_name]
    out = []
    for values in jobs:
        out.append(run_concrete(sc, values))
    return out


def spawn_concrete(prop_module: str, tier: str, scenario_name: str, jobs: list, timeout=600):
    """fresh interpreter, no shadows, unpatched demeter from REPO"""
    if not jobs:
        return []
    payload = json.dumps({"module": prop_module, "tier": tier, "scenario": scenario_name, "jobs": jobs})
    env = dict(os.environ)
    env["PYTHONPATH"] = VERIF_DIR + os.pathsep + REPO
    env["VERIF_CONCRETE"] = "1"
    p = subprocess.run(
        [sys.executable, "-m", "vf.concrete"], input=payload, capture_output=True, text=True, cwd=VERIF_DIR, env=env, timeout=timeout
    )
    if p.returncode != 0:
        raise RuntimeError(f"concrete runner failed: {p.stderr[-2000:]}")
    # last line is the JSON
    line = p.stdout.strip().splitlines()[-1]
    return json.loads(line)


# --------------------------------------------------------------------------------------------- comparison helpers


def _num(s):
    try:
        if s in ("True", "False"):
            return s == "True"
        return fractions.Fraction(s)
    except Exception:
        try:
            return fractions.Fraction(Decimal(s))
        except Exception:
            return None


def obs_agree(pred, got, rel=fractions.Fraction(1, 10**15), abs_=fractions.Fraction(1, 10**25)):
    """compare predicted (exact model evaluation) and concrete observations"""
    if len(pred) != len(got):
        return False, f"observation count {len(pred)} vs {len(got)}"
    for (n1, v1), (n2, v2) in zip(pred, got):
        if n1 != n2:
            return False, f"observation name {n1} vs {n2}"
        a, b = _num(v1), _num(v2)
        if a is None or b is None:
            if v1 != v2 and "<sym>" not in v1:
                return False, f"{n1}: {v1} vs {v2}"
            continue
        if isinstance(a, bool) or isinstance(b, bool):
            if bool(a) != bool(b):
                return False, f"{n1}: {v1} vs {v2}"
            continue
        tol = abs_ + rel * max(abs(a), abs(b))
        if n1.startswith("~"):  # float-valued observation
            tol = fractions.Fraction(1, 10**12) + fractions.Fraction(1, 10**8) * max(abs(a), abs(b))
        if abs(a - b) > tol:
            return False, f"{n1}: {float(a)!r} vs {float(b)!r}"
    return True, ""
