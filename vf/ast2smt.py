"""Extraction of the step structure of demeter.uniswap.liquitidy_math.get_sqrt_ratio_at_tick from its AST.

Nothing about the magic constants is hard-coded here: on every run the function source is parsed and the list
(mask_k, multiplier_k, shift_k), the seed, the inversion constant and the final shift are read from it.
`model(steps)(tick)` evaluates the extracted model as a concrete function so that it can be validated against
the real function (translation validation of the extractor)."""
from __future__ import annotations

import ast
import inspect
import textwrap


class ExtractError(Exception):
    pass


def _const(node):
    """evaluate a constant integer expression (literals, **, <<, *, +, -)"""
    try:
        v = eval(compile(ast.Expression(node), "<const>", "eval"), {"__builtins__": {}})
    except Exception as e:
        raise ExtractError(f"not a constant: {ast.dump(node)[:120]}") from e
    if not isinstance(v, int):
        raise ExtractError("non-integer constant")
    return v


def _is_name(n, name):
    return isinstance(n, ast.Name) and n.id == name


def _mask_test(test):
    """abs_tick & M != 0  -> M"""
    if isinstance(test, ast.Compare) and len(test.ops) == 1 and isinstance(test.ops[0], ast.NotEq) and _const(test.comparators[0]) == 0:
        l = test.left
        if isinstance(l, ast.BinOp) and isinstance(l.op, ast.BitAnd) and _is_name(l.left, "abs_tick"):
            return _const(l.right)
    raise ExtractError(f"unrecognised mask test: {ast.unparse(test)}")


def _mul_shift(value):
    """(ratio * C) >> S   or   (ratio * C) // 2**S  -> (C, S)"""
    if isinstance(value, ast.BinOp) and isinstance(value.op, (ast.RShift, ast.FloorDiv)):
        inner = value.left
        if isinstance(inner, ast.BinOp) and isinstance(inner.op, ast.Mult):
            if _is_name(inner.left, "ratio"):
                c = _const(inner.right)
            elif _is_name(inner.right, "ratio"):
                c = _const(inner.left)
            else:
                raise ExtractError("multiplication does not involve ratio")
            s = _const(value.right)
            if isinstance(value.op, ast.FloorDiv):
                if s <= 0 or s & (s - 1):
                    raise ExtractError("floor division by a non power of two")
                s = s.bit_length() - 1
            return c, s
    raise ExtractError(f"unrecognised step: {ast.unparse(value)}")


def extract(fn):
    src = textwrap.dedent(inspect.getsource(fn))
    tree = ast.parse(src)
    f = tree.body[0]
    out = dict(steps=[], seed=None, max_abs=None, inv_const=None, final_shift=None, round_up=None, source_lines=len(src.splitlines()))
    for st in f.body:
        if isinstance(st, ast.Expr) and isinstance(st.value, ast.Constant):
            continue  # docstring
        if isinstance(st, ast.Assign) and _is_name(st.targets[0], "tick"):
            continue  # tick = int(tick)
        if isinstance(st, ast.Assign) and _is_name(st.targets[0], "abs_tick"):
            if ast.unparse(st.value).replace(" ", "") not in ("tickiftick>=0else-tick", "abs(tick)"):
                raise ExtractError("abs_tick is not |tick|")
            continue
        if isinstance(st, ast.Assert):
            t = st.test
            if isinstance(t, ast.Compare) and _is_name(t.left, "abs_tick") and isinstance(t.ops[0], ast.LtE):
                out["max_abs"] = _const(t.comparators[0])
                continue
            raise ExtractError("unrecognised assert")
        if isinstance(st, ast.AnnAssign) and _is_name(st.target, "ratio") or (isinstance(st, ast.Assign) and _is_name(st.targets[0], "ratio")):
            v = st.value
            if isinstance(v, ast.IfExp):
                out["seed"] = (_mask_test(v.test), _const(v.body), _const(v.orelse))
                continue
            raise ExtractError("unrecognised seed")
        if isinstance(st, ast.If):
            # step or inversion
            t = st.test
            if isinstance(t, ast.Compare) and _is_name(t.left, "tick") and isinstance(t.ops[0], ast.Gt) and _const(t.comparators[0]) == 0:
                a = st.body[0]
                v = a.value
                if isinstance(v, ast.Call) and getattr(v.func, "id", "") == "int":
                    v = v.args[0]
                if isinstance(v, ast.BinOp) and isinstance(v.op, ast.FloorDiv) and _is_name(v.right, "ratio"):
                    out["inv_const"] = _const(v.left)
                    continue
                raise ExtractError("unrecognised inversion")
            m = _mask_test(t)
            if len(st.body) != 1 or st.orelse:
                raise ExtractError("step with extra statements")
            c, s = _mul_shift(st.body[0].value)
            if out["inv_const"] is not None:
                raise ExtractError("step after inversion")
            out["steps"].append((m, c, s))
            continue
        if isinstance(st, ast.Assign) and _is_name(st.targets[0], "sqrt_price_x96"):
            v = st.value
            txt = ast.unparse(v).replace(" ", "")
            # (ratio >> 32) + (0 if ratio % (1 << 32) == 0 else 1)
            if isinstance(v, ast.BinOp) and isinstance(v.op, ast.Add):
                l = v.left
                if isinstance(l, ast.BinOp) and isinstance(l.op, ast.RShift) and _is_name(l.left, "ratio"):
                    out["final_shift"] = _const(l.right)
                    r = v.right
                    if isinstance(r, ast.IfExp) and _const(r.body) == 0 and _const(r.orelse) == 1:
                        tt = r.test
                        if isinstance(tt, ast.Compare) and isinstance(tt.left, ast.BinOp) and isinstance(tt.left.op, ast.Mod) and _const(tt.left.right) == (1 << out["final_shift"]):
                            out["round_up"] = True
                            continue
            if isinstance(v, ast.BinOp) and isinstance(v.op, ast.RShift) and _is_name(v.left, "ratio"):
                out["final_shift"] = _const(v.right)
                out["round_up"] = False
                continue
            # any other expression over `ratio`: kept as an AST, evaluated / translated operator by operator
            names = {n.id for n in ast.walk(v) if isinstance(n, ast.Name)}
            if names != {"ratio"}:
                raise ExtractError(f"unrecognised final conversion: {txt}")
            out["final_expr"] = v
            out["final_shift"], out["round_up"] = None, None
            continue
        if isinstance(st, ast.Return):
            if not _is_name(st.value, "sqrt_price_x96"):
                raise ExtractError("unrecognised return")
            continue
        raise ExtractError(f"unrecognised statement: {ast.unparse(st)[:100]}")
    for k in ("seed", "max_abs", "inv_const") + (() if out.get("final_expr") is not None else ("final_shift", "round_up")):
        if out[k] is None:
            raise ExtractError(f"missing {k}")
    return out


def final_eval(ex, ratio: int) -> int:
    """concrete value of an unrecognised final expression"""
    return int(eval(compile(ast.Expression(ex["final_expr"]), "<final>", "eval"), {"__builtins__": {}}, {"ratio": ratio}))


def final_z3(ex, ratio):
    """z3 Int term of an unrecognised final expression over the Int term `ratio` (+, -, *, //, %, >>, << by constants, comparisons, conditional)"""
    import z3

    def tr(n):
        if isinstance(n, ast.Name):
            return ratio
        if isinstance(n, ast.Constant) and isinstance(n.value, int):
            return z3.IntVal(n.value)
        if isinstance(n, ast.BinOp):
            if isinstance(n.op, (ast.LShift, ast.RShift)):
                k = _const(n.right)
                a = tr(n.left)
                return a * z3.IntVal(1 << k) if isinstance(n.op, ast.LShift) else a / z3.IntVal(1 << k)  # Int division floors for positive divisors
            a, b = tr(n.left), tr(n.right)
            if isinstance(n.op, ast.Add):
                return a + b
            if isinstance(n.op, ast.Sub):
                return a - b
            if isinstance(n.op, ast.Mult):
                return a * b
            if isinstance(n.op, ast.FloorDiv):
                return a / b
            if isinstance(n.op, ast.Mod):
                return a % b
        if isinstance(n, ast.IfExp):
            return z3.If(trb(n.test), tr(n.body), tr(n.orelse))
        raise ExtractError(f"final conversion: unsupported expression {ast.unparse(n)}")

    def trb(n):
        if isinstance(n, ast.Compare) and len(n.ops) == 1:
            a, b = tr(n.left), tr(n.comparators[0])
            op = n.ops[0]
            return {ast.Eq: a == b, ast.NotEq: a != b, ast.Lt: a < b, ast.LtE: a <= b, ast.Gt: a > b, ast.GtE: a >= b}[type(op)]
        raise ExtractError(f"final conversion: unsupported test {ast.unparse(n)}")

    return tr(ex["final_expr"])


def model(ex):
    """concrete evaluator of the extracted step model"""

    def f(tick):
        tick = int(tick)
        a = tick if tick >= 0 else -tick
        assert a <= ex["max_abs"]
        m0, c_odd, c_even = ex["seed"]
        ratio = c_odd if a & m0 != 0 else c_even
        for m, c, s in ex["steps"]:
            if a & m != 0:
                ratio = (ratio * c) >> s
        if tick > 0:
            ratio = ex["inv_const"] // ratio
        if ex.get("final_expr") is not None:
            return final_eval(ex, ratio)
        fs = ex["final_shift"]
        r = ratio >> fs
        if ex["round_up"] and ratio % (1 << fs) != 0:
            r += 1
        return r

    return f
