"""C13 -- Aave derived views always equal a from-scratch recomputation."""
from decimal import Decimal

from ..harness import Scenario
from ..models.aave import SHADOWS, SHAPES_QUICK, SHAPES_THOROUGH, AaveWorld, sym_portfolio, warm_views
from ..models.aave_ops import OPS, apply_op, op_targets

D = Decimal
META = {
    "level": "model_checking",
    "level_text": "Bounded symbolic model checking of cache coherence on the real AaveV3Market: from an arbitrary valid portfolio with an "
    "arbitrary subset of the five caches warmed by real reads, one write (each user operation accepted or rejected, a new bar, the "
    "end-of-bar update with or without liquidation) is executed and every derived view is then proved equal, as a z3 term under "
    "the path condition, to the same view of a freshly constructed cold-cache market carrying the same raw positions, row and prices.",
    "bounds": ["one write between reads (induction over cache states: warm subsets {none, all, supplies-only, risk-only}); listed pairs of two writes with no read in between (first one accepted or rejected)", "portfolio shapes of <= 3 tokens (vf/models/aave.py)", "amounts in [0,1e10], indices [1,4], prices [1e-3,1e5]"],
    "outside": ["formula errors common to warm and cold reads (C11's business)", "APY views (rate ** seconds-per-year is not encoded; compared only as uninterpreted terms)"],
    "assumptions": ["Decimal modelled as exact reals"],
}

WARM = ("all", "none", "supplies", "risk")


def _warm(m, how):
    if how == "all":
        warm_views(m)
    elif how == "supplies":
        _ = m.supplies
        _ = m.borrows
    elif how == "risk":
        _ = m.health_factor
        _ = m.max_ltv


def _fresh_views(ctx, w):
    st = w.raw()
    w2 = AaveWorld(ctx, w.names)
    w2.set_row(w.row["li"], w.row["bi"], w.price)
    w2.install_state(st["sup"], st["bor"])
    return warm_views(w2.market), w2


def _compare(ctx, w, what):
    got = warm_views(w.market)
    exp, w2 = _fresh_views(ctx, w)
    ok = ctx.check(f"after {what}: view key set equals recomputation", set(got) == set(exp))
    if not ok and not ctx.sym:
        return
    items = []
    for k in exp:
        if k in got:
            kk = k
            for n in w.names:
                kk = kk.replace(f"[{n}]", "[<tok>]")
            items.append((f"after {what}: {kk} equals recomputation", got[k] == exp[k] if isinstance(got[k], bool) else ctx.close(got[k], exp[k], rel=D("1e-25"))))
    b1 = w.market.get_market_balance()
    b2 = w2.market.get_market_balance()
    for f in ("net_value", "supplies_value", "borrows_value", "collaterals_value", "health_factor", "ltv", "max_ltv", "liquidation_threshold", "supplies_count", "borrows_count"):
        items.append((f"after {what}: market balance {f} equals recomputation", ctx.close(getattr(b1, f), getattr(b2, f), abs_=D("2e-4"))))
    ctx.check_all(items)


def write_then_read(ctx):
    p = ctx.p
    w = sym_portfolio(ctx, p["shape"])
    _warm(w.market, p["warm"])
    kind = p["write"]
    nv0 = w.o_net_value(w.raw())
    if kind in OPS:
        ok, label, args = apply_op(ctx, w, kind, p["tok"], p["tok2"])
        ctx.outcome("accepted" if ok else "rejected")
        what = f"{kind} ({'accepted' if ok else 'rejected'})"
    elif kind == "new_bar":
        li = {n: ctx.dec(f"li2_{n}", 1, 5) for n in w.names}
        bi = {n: ctx.dec(f"bi2_{n}", 1, 5) for n in w.names}
        pr = {n: ctx.dec(f"p2_{n}", D("0.001"), 10**5) for n in w.names}
        w.set_row(li, bi, pr)
        ctx.outcome("new_bar")
        what = "new bar"
    elif kind == "update":
        n0 = len(w.actions)
        try:
            w.market.update()
        except Exception as e:
            ctx.outcome("update-raised")  # a crashing liquidation is C12's finding
            return
        liq = len(w.actions) > n0
        ctx.outcome("liquidated" if liq else "no-liquidation")
        what = "end-of-bar update " + ("with liquidation" if liq else "without liquidation")
    if p.get("then"):
        # a second write in the same bar, views NOT read in between: whatever the first write left in the caches meets the second one
        from ..models.nv import _aave_second

        ok2, label2, _ = _aave_second(ctx, w, p["then"], p["tok_then"], None, "_2")
        ctx.outcome("then:" + ("accepted" if ok2 else "rejected"))
        what = what + f" then {p['then']} ({'accepted' if ok2 else 'rejected'})"
    _compare(ctx, w, what)
    if kind == "new_bar":
        ctx.check("CANARY views never change", ctx.close(w.market.total_supply_value - w.market.total_borrows_value, nv0, rel=D("1e-25")))


def scenarios(tier):
    shapes = SHAPES_QUICK if tier == "quick" else SHAPES_THOROUGH
    warms = ("all", "risk") if tier == "quick" else WARM
    out = []
    for sn, shape in shapes.items():
        for warm in warms:
            for op in OPS:
                for tok, tok2 in op_targets(shape, op):
                    if tier == "quick" and op == "repay_coll" and sn not in ("A", "B"):
                        continue
                    if tier == "quick" and warm == "risk" and sn not in ("A", "B", "C"):
                        continue
                    out.append(
                        Scenario(
                            f"{sn}/{warm}/{op}/{tok}{'/' + tok2 if tok2 else ''}",
                            write_then_read,
                            params=dict(shape=shape, write=op, tok=tok, tok2=tok2, warm=warm),
                            shadows=SHADOWS,
                            entry=("AaveV3Market derived views", f"AaveV3Market.{op.replace('repay_coll', 'repay')}"),
                            max_paths=800,
                            witness_cap=6,
                            round_mode="uf",
                        )
                    )
            # two writes between the reads (the first accepted or rejected), on the shapes with a debt
            if warm == "all" and (sn in ("A", "B") or tier != "quick"):
                debts = [n for n in shape if shape[n][1]]
                colls = [n for n in shape if shape[n][0] == "C"]
                if debts and colls:
                    for first, tok1, then, tok2 in (("withdraw", colls[0], "borrow", debts[0]), ("borrow", debts[0], "withdraw", colls[0]), ("repay", debts[0], "borrow", debts[0]), ("supply", colls[0], "withdraw", colls[0]), ("change_collateral", colls[0], "borrow", debts[0])):
                        out.append(Scenario(f"{sn}/{warm}/{first}:{tok1}+{then}:{tok2}", write_then_read, params=dict(shape=shape, write=first, tok=tok1, tok2=None, warm=warm, then=then, tok_then=tok2), shadows=SHADOWS, entry=("AaveV3Market derived views", f"AaveV3Market.{first}", f"AaveV3Market.{then}"), max_paths=1200, witness_cap=6, round_mode="uf"))
            if warm == "all" and sn == "A":
                for op, tok in (("borrow", "DAI"), ("withdraw", "WETH")):
                    out.append(Scenario(f"{sn}/{warm}/{op}/{tok}/another_aave_market_in_the_process", write_then_read, params=dict(shape=shape, write=op, tok=tok, tok2=None, warm=warm, neighbour_market=True), shadows=SHADOWS, entry=("AaveV3Market derived views", f"AaveV3Market.{op}"), max_paths=800, witness_cap=6, round_mode="uf"))
            for wr in ("new_bar", "update"):
                if tier == "quick" and wr == "update" and (sn not in ("A", "C", "E") or warm != "all"):
                    continue  # multi-debt liquidation loops are explored in the thorough tier (and by C12)
                out.append(
                    Scenario(
                        f"{sn}/{warm}/{wr}",
                        write_then_read,
                        params=dict(shape=shape, write=wr, tok=None, tok2=None, warm=warm),
                        shadows=SHADOWS,
                        entry=("AaveV3Market derived views", "set_market_status" if wr == "new_bar" else "update/_liquidate/_do_liquidate"),
                        canary="CANARY views never change" if wr == "new_bar" else None,
                        max_paths=800,
                        witness_cap=6,
                            round_mode="uf",
                    )
                )
    return out
