"""C09 -- token order is immaterial: mirrored pools give the same economic results."""
from decimal import Decimal

from ..harness import Scenario
from ..symx import ite, sand, sor, snot, smax, smin, sabs, is_sym

D = Decimal
META = {
    "level": "model_checking",
    "level_text": "Bounded symbolic model checking (differential, self-composition): two real UniLpMarket objects are built, pool A with token0 = quote and "
    "its mirror B with token0 = base (ticks negated, per-token volumes and decimals swapped), with the same wallet in base/quote terms; "
    "the same operation expressed in base/quote terms is executed on both with symbolic wallet balances, amounts, values, liquidity "
    "and volumes; z3 proves on every feasible path pair that both orientations take the same accept/reject branch and that used "
    "amounts, liquidity, fees, position values and wallet balances agree to 1e-12 relative (plus two on-chain units of integer "
    "rounding), and the estimate-based helpers to 0.1 %.",
    "bounds": ["pool tick from a grid of 4, position range below / around / above the price, decimals (quote, base) in {(6,18),(18,6),(8,18),(18,18)}", "one operation (plus the set-up add) per scenario; amounts in [1e-3, 1e6] tokens; fee tier 0.05 % (quick) and 0.3 % (thorough), ranges on multiples of the tier's tick spacing", "price ranges given by prices strictly inside a tick next to the snapping tie (both parities), ticks off the spacing grid trimmed by the market (exact half-spacing ties of both parities), pool price strictly inside the tick that is a range bound"],
    "outside": ["pool ticks / ranges outside the grid", "sequences longer than set-up + one operation + one fee bar", "amounts so small that one on-chain unit exceeds 1e-12 relative (absolute slack of 2 units is allowed)"],
    "assumptions": ["Decimal modelled as exact reals; float estimate_ratio evaluated concretely (ticks are concrete)"],
}
SHADOWS = (
    "demeter.uniswap.market",
    "demeter.uniswap.core",
    "demeter.uniswap.helper",
    "demeter.uniswap.liquitidy_math",
    "demeter.uniswap._typing",
    "demeter.broker._typing",
    "demeter.broker.broker",
    "demeter.broker.market",
    "demeter.utils.application",
)
REL = D("1e-12")
EST = D("1e-3")


class Side:
    """one orientation: a real UniLpMarket + Broker"""

    def __init__(self, ctx, token0_quote, dq, db, tick_a, fee, vols, liq, wallet_base, wallet_quote, names=("QUO", "BAS")):
        import pandas as pd
        from demeter import Broker, TokenInfo, MarketInfo
        from demeter.uniswap import UniLpMarket, UniV3Pool, UniswapMarketStatus

        self.t0q = token0_quote
        self.Q, self.B = TokenInfo(names[0], dq), TokenInfo(names[1], db)
        self.pool = UniV3Pool(self.Q, self.B, fee, self.Q) if token0_quote else UniV3Pool(self.B, self.Q, fee, self.Q)
        self.actions = []
        self.broker = Broker(record_action_callback=self.actions.append)
        self.m = UniLpMarket(MarketInfo("uni"), self.pool)
        self.broker.add_market(self.m)
        self.tick = tick_a if token0_quote else -tick_a
        self.vols, self.liq = vols, liq
        self.half_tick = bool(ctx.p.get("half_tick"))
        self.set_bar(tick_a)
        self.broker.set_balance(self.B, wallet_base)
        self.broker.set_balance(self.Q, wallet_quote)

    def set_bar(self, tick_a):
        """tick_a: the pool tick in A's orientation. Both orientations get the SAME base/quote price (the economic input);
        the mirror's own tick is -tick_a."""
        import pandas as pd
        from demeter.uniswap import UniswapMarketStatus
        from demeter.uniswap.helper import tick_to_base_unit_price

        vq, vb = self.vols
        in0, in1 = (vq, vb) if self.t0q else (vb, vq)
        tick = tick_a if self.t0q else -tick_a
        price = tick_to_base_unit_price(tick_a, self.Q.decimal, self.B.decimal, True)
        if getattr(self, "half_tick", False):
            # a price strictly inside tick_a (geometric middle of the tick): its floor tick is tick_a in A and -(tick_a + 1) in the mirror
            price = (price * tick_to_base_unit_price(tick_a + 1, self.Q.decimal, self.B.decimal, True)).sqrt()
            tick = tick_a if self.t0q else -(tick_a + 1)
        self.m.set_market_status(
            UniswapMarketStatus(timestamp=None, data=pd.Series(data=[in0, in1, self.liq, tick, price], index=["inAmount0", "inAmount1", "currentLiquidity", "closeTick", "price"], dtype=object)),
            price=None,
        )

    def ticks(self, lo_a, hi_a):
        return (lo_a, hi_a) if self.t0q else (-hi_a, -lo_a)

    def bq(self, amount0, amount1):
        """(token0, token1) -> (base, quote)"""
        return (amount1, amount0) if self.t0q else (amount0, amount1)

    def t01(self, base, quote):
        return (quote, base) if self.t0q else (base, quote)

    def wallet(self):
        return self.broker.get_token_balance(self.B), self.broker.get_token_balance(self.Q)


def _unit(dec):
    return D(2) / D(10**dec)


def _pair(ctx, rich=True):
    p = ctx.p
    dq, db = p["dq"], p["db"]
    vq = ctx.int_("vol_quote_wei", 0, 10 ** (dq + 9))
    vb = ctx.int_("vol_base_wei", 0, 10 ** (db + 6))
    liq = ctx.int_("pool_liquidity", 10**10, 10**26)
    wb = ctx.dec("wallet_base", 0, 10**6)
    wq = ctx.dec("wallet_quote", 0, 10**9)
    a = Side(ctx, True, dq, db, p["tick"], p.get("fee", 0.05), (vq, vb), liq, wb, wq)
    b = Side(ctx, False, dq, db, p["tick"], p.get("fee", 0.05), (vq, vb), liq, wb, wq)
    a.w0 = b.w0 = (wb, wq)
    return a, b


class Slack:
    """absolute tolerances that are the mirror's own integer rounding: 2 on-chain units of each token plus the amount one
    liquidity unit is worth (liquidity is an integer; the two orientations may differ by one unit)"""

    def __init__(self, a, lo, hi):
        from demeter.uniswap.liquitidy_math import get_sqrt_ratio_at_tick

        sa, sb = D(get_sqrt_ratio_at_tick(lo)), D(get_sqrt_ratio_at_tick(hi))
        q96 = D(2**96)
        per_l_quote = q96 * (1 / sa - 1 / sb)  # token0 of A = quote, in wei per liquidity unit
        per_l_base = (sb - sa) / q96
        self.q = (2 + 4 * per_l_quote) / D(10**a.Q.decimal)
        self.b = (2 + 4 * per_l_base) / D(10**a.B.decimal)
        self.liq = 3


def _run_both(ctx, a, b, fn, label, edge=None):
    """run fn(side) on both orientations; same accept/reject (except on the knife edge described by `edge`);
    returns (ra, rb) or None"""
    out = []
    for s in (a, b):
        try:
            out.append(("ok", fn(s)))
        except Exception as e:
            if type(e).__name__ not in ("DemeterError", "AssertionError", "InsufficientBalanceError", "ZeroDivisionError", "DivisionByZero", "InvalidOperation", "KeyError"):
                ctx.check(f"{label}: only documented rejections are raised (got {type(e).__name__})", False, detail=str(e)[:200])
            out.append(("rej", type(e).__name__))
    ctx.outcome(f"{label}:{out[0][0]}/{out[1][0]}")
    if out[0][0] != out[1][0]:
        ok_res = out[0][1] if out[0][0] == "ok" else out[1][1]
        on_edge = edge(ok_res, a if out[0][0] == "ok" else b) if edge is not None else False
        ctx.check(f"{label}: both orientations take the same accept/reject branch (except within 1e-9 of the rejection threshold)", on_edge)
        return None
    if out[0][0] == "ok":
        return out[0][1], out[1][1]
    return None


def _same(ctx, name, x, y, rel=REL, abs_=None):
    ctx.check(name, ctx.close(x, y, rel=rel, abs_=abs_), show={"x": x, "y": y, "abs": abs_ if abs_ is not None else 0})


EDGE = D("1e-9")
SNAP = D("0.00001")


def _wallet_close(ctx, x, y, w0, slack):
    """equal within tolerance, or one side was snapped to zero by the wallet's own 1e-5 dust rule (Asset.sub)"""
    bound = SNAP * w0 * (1 + EDGE) + slack
    return sor(ctx.close(x, y, rel=REL, abs_=slack), sand(x == 0, sabs(y) <= bound), sand(y == 0, sabs(x) <= bound))


def _compare_wallets(ctx, a, b, label, sl):
    (ab, aq), (bb, bq_) = a.wallet(), b.wallet()
    ctx.check(f"{label}: base wallet balance agrees across orientations", _wallet_close(ctx, ab, bb, a.w0[0], sl.b))
    ctx.check(f"{label}: quote wallet balance agrees across orientations", _wallet_close(ctx, aq, bq_, a.w0[1], sl.q))


def _compare_balance(ctx, a, b, label, sl, rel=REL):
    x, y = a.m.get_market_balance(), b.m.get_market_balance()
    sc = 2 * (sl.q + sl.b * x_price(a))
    _same(ctx, f"{label}: market net value agrees across orientations", x.net_value, y.net_value, rel=rel, abs_=sc)
    _same(ctx, f"{label}: base in position agrees", x.base_in_position, y.base_in_position, rel=rel, abs_=sl.b)
    _same(ctx, f"{label}: quote in position agrees", x.quote_in_position, y.quote_in_position, rel=rel, abs_=sl.q)
    _same(ctx, f"{label}: uncollected base agrees", x.base_uncollected, y.base_uncollected, rel=rel, abs_=sl.b)
    _same(ctx, f"{label}: uncollected quote agrees", x.quote_uncollected, y.quote_uncollected, rel=rel, abs_=sl.q)


def x_price(s):
    return s.m.market_status.data.price


SPACING = {0.01: 1, 0.05: 10, 0.3: 60, 1: 200}


def _range(p):
    """position range in A-orientation ticks: multiples of the fee tier's tick spacing (10 for the 0.05 % tier)"""
    u = SPACING[p.get("fee", 0.05)]
    base = p["tick"] - p["tick"] % u
    return {
        "below": (base + 30 * u, base + 60 * u),  # the pool tick is below the range
        "above": (base - 60 * u, base - 30 * u),
        "edge_low": (base, base + 30 * u),
        "edge_high": (base - 30 * u, base),
        "inside": (base - 30 * u, base + 30 * u),
        "off_centre": (base - 10 * u, base + 50 * u),
        "wide": (base - 400 * u, base + 400 * u),
    }[p["range"]]


def _wei_amount(ctx, name, decimals, lo_exp, hi_exp):
    """token amount that is a whole number of on-chain units (symbolic integer / 10^decimals)"""
    lo = 10 ** max(decimals + lo_exp, 0)
    k = ctx.int_(name, lo, 10 ** (decimals + hi_exp))
    return _dec(k) / 10**decimals


def _dec(x):
    from .. import symx

    return symx.sym_dec(x) if isinstance(x, symx.Sym) else D(x)


def _add_edge(a, sl):
    """knife edge of a wallet rejection: the accepting side used an amount within 1e-9 (+ integer slack) of what the wallet
    (with its 1e-5 dust allowance) can pay"""

    def edge(res, side):
        _, base_used, quote_used, _ = res
        wb, wq = a.w0
        return sor(base_used * (1 + EDGE) + sl.b > wb * (1 + SNAP), quote_used * (1 + EDGE) + sl.q > wq * (1 + SNAP))

    return edge


def _setup_position(ctx, a, b, sl, label="setup", rich=True):
    """add the same position on both sides with symbolic amounts; returns keys"""
    lo, hi = _range(ctx.p)
    if ctx.p.get("deposit"):
        # concrete deposit (=> concrete liquidity): keeps the fee-bar obligations low-degree (volumes, pool liquidity, caps stay symbolic)
        base_amt, quote_amt = (D(x) for x in ctx.p["deposit"])
    else:
        base_amt = _wei_amount(ctx, "add_base_wei", a.B.decimal, -3, 4)
        quote_amt = _wei_amount(ctx, "add_quote_wei", a.Q.decimal, -3, 7)
    if rich:
        ctx.assume(sand(a.w0[0] >= 2 * base_amt, a.w0[1] >= 2 * quote_amt))
    # 1e-12 relative is taken relative to the size of the deposit (after removing almost all liquidity the few remaining
    # units still differ by 1e-12 of what was deposited, not of what is left)
    sl.b = sl.b + REL * (base_amt + quote_amt / x_price(a))
    sl.q = sl.q + REL * (quote_amt + base_amt * x_price(a))
    sl.liq_after = None

    off = ctx.p.get("tick_off", 0)  # ticks as the user gives them: off the spacing grid (exact half-spacing ties included), trimmed by the market

    def add(s):
        l, h = s.ticks(lo + off, hi + off)
        return s.m.add_liquidity_by_tick(l, h, base_amt, quote_amt)

    r = _run_both(ctx, a, b, add, label, edge=_add_edge(a, sl))
    if r is None:
        return None
    (ka, ba_used, qa_used, la), (kb, bb_used, qb_used, lb) = r
    _same(ctx, f"{label}: base used agrees across orientations", ba_used, bb_used, abs_=sl.b)
    _same(ctx, f"{label}: quote used agrees across orientations", qa_used, qb_used, abs_=sl.q)
    _same(ctx, f"{label}: liquidity agrees across orientations", _dec(la), _dec(lb), abs_=sl.liq)
    sl.liq_after = sl.liq + REL * _dec(la)
    ctx.check(f"{label}: mirrored position key", sand(ka.lower_tick == -kb.upper_tick, ka.upper_tick == -kb.lower_tick))
    return ka, kb


def op_scenario(ctx):
    from demeter.uniswap import PositionInfo

    p = ctx.p
    op = p["op"]
    a, b = _pair(ctx)
    lo, hi = _range(p)
    sl = Slack(a, lo, hi)
    wb, wq = a.w0
    price = x_price(a)
    fee_rate = a.pool.fee_rate
    if op == "add_by_tick":
        keys = _setup_position(ctx, a, b, sl, "add_liquidity_by_tick", rich=not p.get("poor"))
        if keys is None and p.get("poor") and ctx.outcomes and ctx.outcomes[-1].endswith("rej/rej"):
            # rejected in both orientations: whatever was taken before the rejection is handed back in
            # BOTH token orders -- the wallets still agree, and equal what they were
            _compare_wallets(ctx, a, b, "add_liquidity_by_tick [rejected]", sl)
        if keys:
            _compare_wallets(ctx, a, b, "add_liquidity_by_tick", sl)
            _compare_balance(ctx, a, b, "add_liquidity_by_tick", sl)
            ctx.check("CANARY wallets never move", sand(a.wallet()[0] == wb, a.wallet()[1] == wq))
        return
    if op == "add_by_price":
        # add_liquidity takes quote prices: the same two prices on both sides
        pl, ph = a.m.tick_to_price(hi), a.m.tick_to_price(lo)  # A: higher tick = lower price
        if p.get("mid_tick"):
            # prices strictly inside a tick, half a spacing (less one tick) above a usable tick: the tick such a price floors to and
            # the tick its mirror floors to lie on either side of the rounding tie between two usable ticks
            from demeter.uniswap.helper import tick_to_base_unit_price

            u = SPACING[p.get("fee", 0.05)]

            def mid(t):
                return (tick_to_base_unit_price(t, a.Q.decimal, a.B.decimal, True) * tick_to_base_unit_price(t + 1, a.Q.decimal, a.B.decimal, True)).sqrt()

            off = u // 2 - 1 + p.get("mid_off", 0)
            pl, ph = mid(hi + off), mid(lo + off)
        base_amt = _wei_amount(ctx, "add_base_wei", a.B.decimal, -3, 4)
        quote_amt = _wei_amount(ctx, "add_quote_wei", a.Q.decimal, -3, 7)
        ctx.assume(sand(wb >= 2 * base_amt, wq >= 2 * quote_amt))
        r = _run_both(ctx, a, b, lambda s: s.m.add_liquidity(pl, ph, quote_amt, base_amt), "add_liquidity", edge=_add_edge(a, sl))
        if r:
            (ka, bau, qau, la), (kb, bbu, qbu, lb) = r
            ctx.check("add_liquidity: mirrored tick range", sand(ka.lower_tick == -kb.upper_tick, ka.upper_tick == -kb.lower_tick))
            _same(ctx, "add_liquidity: base used agrees", bau, bbu, abs_=sl.b)
            _same(ctx, "add_liquidity: quote used agrees", qau, qbu, abs_=sl.q)
            _same(ctx, "add_liquidity: liquidity agrees", _dec(la), _dec(lb), abs_=sl.liq)
            _compare_wallets(ctx, a, b, "add_liquidity", sl)
        return
    if op in ("buy", "sell"):
        amt = ctx.dec("amount", 0, 10**5)
        r = _run_both(ctx, a, b, lambda s: getattr(s.m, op)(amt), op)
        if r:
            for i, nm in enumerate(("fee", "spent", "got")):
                _same(ctx, f"{op}: {nm} agrees across orientations", r[0][i], r[1][i])
            _compare_wallets(ctx, a, b, op, sl)
        return
    if op == "swap":
        amt = ctx.dec("amount", 0, 10**5)
        direction = p["dir"]
        r = _run_both(ctx, a, b, lambda s: s.m.swap(amt, s.B, s.Q) if direction == "b2q" else s.m.swap(amt, s.Q, s.B), "swap")
        if r:
            _same(ctx, "swap: fee agrees", r[0][0], r[1][0])
            _same(ctx, "swap: amount received agrees", r[0][1], r[1][1])
            _compare_wallets(ctx, a, b, "swap", sl)
        return
    if op == "even_rebalance":
        r = _run_both(ctx, a, b, lambda s: s.m.even_rebalance(), "even_rebalance")
        if r:
            _compare_wallets(ctx, a, b, "even_rebalance", sl)
            ctx.check("even_rebalance: both orientations record the same number of actions", len(a.actions) == len(b.actions))
        return
    if op == "add_by_value":
        val = ctx.dec("value", D("1"), 10**7)
        total = wb * price + wq
        # away from the knife edges of the helper's own branch conditions (value == balance)
        ctx.assume(sor(val <= total * D("0.99"), val >= total * D("1.01")))
        r = _run_both(ctx, a, b, lambda s: s.m.add_liquidity_by_value(*s.ticks(lo, hi), val), "add_liquidity_by_value")
        if r:
            (ka, bau, qau, la), (kb, bbu, qbu, lb) = r
            va, vb = bau * price + qau, bbu * price + qbu
            tol = EST * val + D("1e-6")
            _same(ctx, "add_liquidity_by_value: value put into the position agrees to 0.1 %", va, vb, rel=0, abs_=tol)
            _same(ctx, "add_liquidity_by_value: base used agrees to 0.1 % of the value", bau * price, bbu * price, rel=0, abs_=tol)
            _same(ctx, "add_liquidity_by_value: quote used agrees to 0.1 % of the value", qau, qbu, rel=0, abs_=tol)
            (ab, aq), (bb, bq_) = a.wallet(), b.wallet()
            _same(ctx, "add_liquidity_by_value: base wallet agrees to 0.1 % of the value", ab * price, bb * price, rel=0, abs_=tol + SNAP * wb * price)
            _same(ctx, "add_liquidity_by_value: quote wallet agrees to 0.1 % of the value", aq, bq_, rel=0, abs_=tol + SNAP * wq)
            ctx.check("add_liquidity_by_value: nearly all the requested value is used (swap fee and one-sided remainder aside)", sand(va <= val * (1 + EST), vb <= val * (1 + EST)))
        return
    # the estimate helpers floor the current price to a tick in each orientation (floor(-x) != -floor(x)): results may differ
    # by one tick's worth of the range split, which exceeds 0.1 % of the value for ranges narrower than ~2000 ticks.
    dist = min(p["tick"] - lo, hi - p["tick"])
    one_tick = max(EST, D(2) / D(max(dist, 1))) if dist > 0 else D(1)
    if op == "estimate_amount":
        val = ctx.dec("value", D("0.01"), 10**7)
        r = _run_both(ctx, a, b, lambda s: s.bq(*s.m.estimate_amount(val, *s.ticks(lo, hi))), "estimate_amount")
        if r:
            _same(ctx, "estimate_amount: base amount agrees to 0.1 %", r[0][0] * price, r[1][0] * price, rel=0, abs_=EST * val)
            _same(ctx, "estimate_amount: quote amount agrees to 0.1 %", r[0][1], r[1][1], rel=0, abs_=EST * val)
            _same(ctx, "estimate_amount: base amount agrees to one tick of the range split", r[0][0] * price, r[1][0] * price, rel=0, abs_=one_tick * val)
            _same(ctx, "estimate_amount: quote amount agrees to one tick of the range split", r[0][1], r[1][1], rel=0, abs_=one_tick * val)
            _same(ctx, "estimate_amount: amounts are worth the requested value", r[0][0] * price + r[0][1], val, rel=0, abs_=EST * val)
        return
    if op == "estimate_liquidity":
        val = ctx.dec("value", D("1"), 10**7)

        def est(s):
            l, h = s.ticks(lo, hi)
            liq, t0, t1 = s.m.estimate_liquidity(val, PositionInfo(l, h))
            return (liq,) + tuple(s.bq(t0, t1))

        r = _run_both(ctx, a, b, est, "estimate_liquidity")
        if r:
            _same(ctx, "estimate_liquidity: liquidity agrees to 0.1 %", _dec(r[0][0]), _dec(r[1][0]), rel=EST, abs_=2)
            _same(ctx, "estimate_liquidity: base amount agrees to 0.1 %", r[0][1] * price, r[1][1] * price, rel=0, abs_=EST * val)
            _same(ctx, "estimate_liquidity: quote amount agrees to 0.1 %", r[0][2], r[1][2], rel=0, abs_=EST * val)
            _same(ctx, "estimate_liquidity: liquidity agrees to one tick of the range split", _dec(r[0][0]), _dec(r[1][0]), rel=2 * one_tick, abs_=2)
            _same(ctx, "estimate_liquidity: base amount agrees to one tick of the range split", r[0][1] * price, r[1][1] * price, rel=0, abs_=one_tick * val)
            _same(ctx, "estimate_liquidity: quote amount agrees to one tick of the range split", r[0][2], r[1][2], rel=0, abs_=one_tick * val)
            _same(ctx, "estimate_liquidity: amounts are worth the requested value", r[0][1] * price + r[0][2], val, rel=0, abs_=EST * val)
            # in each orientation on its own: the liquidity returned is what the requested value buys at the bar price (closed forms,
            # harness oracle); the helper rounds the price to a tick, hence 1 % and not 1e-12
            from ..models.nv import v3_amounts_per_liquidity, N

            # (only where one on-chain unit of the base token is worth less than 1e-9 quote units: at the grid point t-276327 / (6,18)
            # the price is 1e24, a base amount below one wei buys no liquidity at all and the whole value is lost -- integer
            # granularity of the chain, not the helper's doing)
            for side, rr in ((a, r[0]), (b, r[1])) if price * D(10) ** (-a.B.decimal) <= D("1e-9") else ():
                l_, h_ = side.ticks(lo, hi)
                c0, c1 = v3_amounts_per_liquidity(l_, h_, price, side.t0q, side.pool.token0.decimal, side.pool.token1.decimal)
                bq = side.bq(c0, c1)
                worth = N(_dec(rr[0])) * (bq[0] * N(price) + bq[1])
                ctx.check("estimate_liquidity: the liquidity returned is worth the requested value at the bar price (1 %), in each orientation", sabs(worth - N(val)) <= N(D("0.01")) * N(val) + N(D("1e-6")) + N(sl.b) * N(price) + N(sl.q))  # sl: whole on-chain units (a base amount below one wei buys no liquidity)
        return
    # ---- operations on an existing position
    keys = _setup_position(ctx, a, b, sl)
    if keys is None:
        return
    ka, kb = keys
    key = {id(a): ka, id(b): kb}
    if op == "remove":
        frac_liq = ctx.int_("remove_liquidity", 0, 10**30) if p.get("partial") else None
        collect = p.get("collect", True)
        r = _run_both(ctx, a, b, lambda s: s.m.remove_liquidity(key[id(s)], frac_liq, collect), "remove_liquidity")
        if r:
            _same(ctx, "remove_liquidity: base received agrees", r[0][0], r[1][0], abs_=sl.b)
            _same(ctx, "remove_liquidity: quote received agrees", r[0][1], r[1][1], abs_=sl.q)
            _compare_wallets(ctx, a, b, "remove_liquidity", sl)
            if ka in a.m.positions and kb in b.m.positions:
                ctx.check("remove_liquidity: remaining liquidity agrees", ctx.close(_dec(a.m.positions[ka].liquidity), _dec(b.m.positions[kb].liquidity), abs_=sl.liq_after), show={"la": a.m.positions[ka].liquidity, "lb": b.m.positions[kb].liquidity, "rm": frac_liq if frac_liq is not None else 0})
            _compare_balance(ctx, a, b, "remove_liquidity", sl)
            ctx.check("remove_liquidity: the position survives on both sides or on neither", (ka in a.m.positions) == (kb in b.m.positions))
    elif op == "fee_bar":
        # one bar of fee accrual towards a (mirrored) new close tick, then collect with caps expressed per token
        new_tick = p["tick"] + p["move"]
        for s in (a, b):
            s.set_bar(new_tick)
        r = _run_both(ctx, a, b, lambda s: s.m.update(), "fee bar")
        if r is not None:
            pa, pb = a.m.positions[ka], b.m.positions[kb]
            fa, fb = a.bq(pa.pending_amount0, pa.pending_amount1), b.bq(pb.pending_amount0, pb.pending_amount1)
            tiny = D("1e-24")
            # one liquidity unit of difference between the orientations moves the share by 1/(pool+own)
            fee_b = tiny + 3 * _dec(a.vols[1]) / 10**a.B.decimal * fee_rate / _dec(a.liq)
            fee_q = tiny + 3 * _dec(a.vols[0]) / 10**a.Q.decimal * fee_rate / _dec(a.liq)
            _same(ctx, "fee bar: base fee agrees across orientations", fa[0], fb[0], abs_=fee_b)
            _same(ctx, "fee bar: quote fee agrees across orientations", fa[1], fb[1], abs_=fee_q)
            sa, sb = a.m.get_position_status(ka), b.m.get_position_status(kb)
            _same(ctx, "fee bar: pending value agrees", sa.pending_value, sb.pending_value, abs_=fee_q + fee_b * x_price(a))
            _same(ctx, "fee bar: position value agrees", sa.value, sb.value, abs_=2 * (sl.q + sl.b * x_price(a)) + fee_q + fee_b * x_price(a))
            cap_b = ctx.dec("cap_base", 0, 10)
            cap_q = ctx.dec("cap_quote", 0, 10**4)
            r2 = _run_both(ctx, a, b, lambda s: s.m.collect_fee(key[id(s)], *s.t01(cap_b, cap_q)), "collect_fee")
            if r2:
                _same(ctx, "collect_fee: base collected agrees", r2[0][0], r2[1][0], abs_=fee_b)
                _same(ctx, "collect_fee: quote collected agrees", r2[0][1], r2[1][1], abs_=fee_q)
                ctx.check("collect_fee: never more than the per-token cap", sand(r2[0][0] <= cap_b, r2[0][1] <= cap_q, r2[1][0] <= cap_b, r2[1][1] <= cap_q))
    ctx.check("CANARY wallets never move", sand(a.wallet()[0] == wb, a.wallet()[1] == wq))


DEPOSITS = (("1.5", "2500"), ("0.0123", "7000.5"), ("40", "11.25"))


def scenarios(tier):
    out = []
    ticks = (200013,) if tier == "quick" else (200013, -276327, 7, 69082)
    decs = ((6, 18), (18, 6)) if tier == "quick" else ((6, 18), (18, 6), (8, 18), (18, 18))
    fees = (0.05,) if tier == "quick" else (0.05, 0.3)
    ranges = ("below", "inside", "above", "wide")
    kw = dict(shadows=SHADOWS, nlsat=False, relax_int=True, max_paths=800, time_budget_s=240, query_timeout_ms=20000, witness_cap=16)
    for t in ticks:
        for dq, db in decs:
            for fee in fees:
                if tier != "quick" and ((dq, db) != (6, 18) and (t != ticks[0] or fee != fees[0])):
                    continue
                base = dict(tick=t, dq=dq, db=db, fee=fee)
                tag = f"t{t}/q{dq}b{db}/f{fee}"
                rgs = ranges + (("edge_low", "edge_high", "off_centre") if tier != "quick" or (dq, db) == (6, 18) else ("off_centre",))
                for rg in rgs:
                    for op in ("add_by_tick", "add_by_price", "add_by_value", "estimate_amount", "estimate_liquidity", "remove"):
                        out.append(Scenario(f"{op}/{rg}/{tag}", op_scenario, params=dict(base, op=op, range=rg), entry=(f"UniLpMarket.{op}",), canary="CANARY wallets never move" if op == "add_by_tick" and rg == "inside" else None, **kw))
                    out.append(Scenario(f"remove_partial_nocollect/{rg}/{tag}", op_scenario, params=dict(base, op="remove", range=rg, partial=True, collect=False), entry=("UniLpMarket.remove_liquidity",), **kw))
                    for mv in (0, 450, -450, 900):
                        if tier == "quick" and (mv == 900 or ((dq, db) != (6, 18) and rg != "inside")):
                            continue
                        out.append(Scenario(f"fee_bar{mv:+d}/{rg}/{tag}", op_scenario, params=dict(base, op="fee_bar", range=rg, move=mv, deposit=DEPOSITS[(len(out)) % len(DEPOSITS)] if tier != "quick" else DEPOSITS[0]), entry=("UniLpMarket.update", "V3CoreLib.update_fee", "UniLpMarket.collect_fee", "get_position_status", "get_market_balance"), **dict(kw, nlsat=True, relax_inputs=True)))
                # ticks off the spacing grid, trimmed by the market: exact half-spacing ties of both parities, and a tick next to a tie
                for off in (SPACING[fee] // 2, SPACING[fee] // 2 + SPACING[fee], SPACING[fee] // 2 - 1):
                    out.append(Scenario(f"add_by_tick/inside/ticks_off_the_grid+{off}/{tag}", op_scenario, params=dict(base, op="add_by_tick", range="inside", tick_off=off), entry=("UniLpMarket.add_liquidity_by_tick", "nearest_usable_tick"), **kw))
                # range given by PRICES strictly inside a tick next to the rounding tie between two usable ticks (both parities of the tie)
                for rg in ("inside", "below"):
                    for off in (0, SPACING[fee]):
                        out.append(Scenario(f"add_by_price/{rg}/prices_inside_a_tick_next_to_the_snapping_tie+{off}/{tag}", op_scenario, params=dict(base, op="add_by_price", range=rg, mid_tick=True, mid_off=off), entry=("UniLpMarket.add_liquidity", "V3CoreLib.quote_price_pair_to_tick", "nearest_usable_tick"), **kw))
                # price strictly inside the tick that is a range bound (pool tick 200010 = lower bound of edge_low = upper bound of edge_high)
                if t == ticks[0] and fee == fees[0] and (dq, db) == (6, 18):
                    for rg in ("edge_low", "edge_high"):
                        for op in ("estimate_liquidity", "estimate_amount"):
                            out.append(Scenario(f"{op}/{rg}/half_tick_inside_the_bound/t200010/q{dq}b{db}", op_scenario, params=dict(tick=200010, dq=dq, db=db, fee=fee, op=op, range=rg, half_tick=True), entry=(f"UniLpMarket.{op}",), **kw))
                if True:  # both decimal orders in every tier: with (18, 6) the pool price is tiny and so is what a botched roll-back loses
                  out.append(Scenario(f"add_by_tick_poor_wallet/inside/{tag}", op_scenario, params=dict(base, op="add_by_tick", range="inside", poor=True, **(dict(deposit=DEPOSITS[0]) if (dq, db) == (6, 18) and tier == "quick" else {})), entry=("UniLpMarket.add_liquidity_by_tick", "Asset.sub"), **kw))  # quick, (6,18): concrete offer, symbolic wallets (the rejection paths are the wallets' business)
                for op in ("buy", "sell", "even_rebalance"):
                    out.append(Scenario(f"{op}/{tag}", op_scenario, params=dict(base, op=op, range="inside"), entry=(f"UniLpMarket.{op}",), **kw))
                for d in ("b2q", "q2b"):
                    out.append(Scenario(f"swap_{d}/{tag}", op_scenario, params=dict(base, op="swap", dir=d, range="inside"), entry=("UniLpMarket.swap",), **kw))
    return out
