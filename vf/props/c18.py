"""C18 -- time triggers fire on exactly the bars their specification denotes."""
from datetime import datetime, timedelta
from decimal import Decimal

from ..harness import Scenario
from ..models import bars
from ..symx import ite, sand, sor, snot, is_sym
from .. import symtime
from ..symtime import sym_datetime, sym_timedelta, secs_of, td_secs

D = Decimal
META = {
    "level": "model_checking",
    "level_text": "Bounded symbolic model checking through the real bar loop: the real Actuator runs a real UniLpMarket over a synthetic grid of "
    "N bars with a strategy holding one real trigger object whose parameters (times incl. seconds, range ends, period, delay, "
    "immediate flag, extra kwargs) are proxies (seconds as z3 Int, symbolic datetimes/timedeltas); every feasible firing pattern is "
    "enumerated and z3 proves for each bar that the trigger fired iff the specification's denotation holds, that the action ran "
    "once per firing with the supplied kwargs, and that a trigger was retired only when it can never fire again.",
    "bounds": ["N <= 8 bars (quick) / 12 (thorough), bar interval 1 min, 5 min, 1 h; one run with the actuator's own resampling to 5 min", "<= 2 times / ranges / periods per trigger; periods and delays are multiples of the bar interval in [1, N+2] bars; times within [-3, N+3] bars of the start, any second"],
    "outside": ["longer grids", "periods that are not multiples of the bar interval (unspecified)", "PriceTrigger / CustomizedTrigger (caller-supplied predicates)"],
    "assumptions": ["datetime/timedelta parameters are modelled as integer seconds from an epoch; datetime(y,m,d,h,mi) of one symbolic datetime's components = truncation to the minute"],
}
SHADOWS = bars.ACTUATOR_SHADOWS


def _world(ctx, n, freq, resample=None):
    from demeter import Strategy

    m, usdc, eth, pool = bars.make_uni(n, freq)
    prices = __import__("demeter").uniswap.helper.get_price_from_data(m.data, pool)
    a = bars.make_actuator([m], prices, None, {usdc: D(1000), eth: D(1)})
    if resample:
        a.interval = resample
    return a, m


def trigger_run(ctx):
    import pandas as pd
    import demeter
    from demeter import Strategy
    from demeter.strategy import trigger as T

    if ctx.sym:
        symtime.install()
    p = ctx.p
    kind, n, step = p["kind"], p["bars"], p["step_min"]
    freq = f"{step}min"
    resample = p.get("resample")
    n_data = n * (p.get("resample_factor", 1))
    a, m = _world(ctx, n_data, f"{step // p.get('resample_factor', 1)}min" if resample else freq, resample)
    S = step * 60
    bar_t = [bars.START + timedelta(seconds=S * i) for i in range(n)]
    lo, hi = -3 * S, (n + 3) * S
    fired, present = [], []
    kw_a = ctx.int_("kwarg_a", -5, 5)

    def do(snapshot, **kw):
        fired.append((snapshot.row_id, snapshot.timestamp, kw))

    sub = bool(p.get("subsecond"))
    if kind == "at_time":
        t1 = sym_datetime(ctx, "t1_s", bars.START, lo, hi, subsecond=sub)
        trg = T.AtTimeTrigger(t1, do, a=kw_a, tag="x")
    elif kind == "at_times":
        t1 = sym_datetime(ctx, "t1_s", bars.START, lo, hi)
        t2 = sym_datetime(ctx, "t2_s", bars.START, lo, hi)
        trg = T.AtTimesTrigger([t1, t2], do, a=kw_a, tag="x")
    elif kind == "range":
        t1 = sym_datetime(ctx, "t1_s", bars.START, lo, hi, subsecond=sub)
        t2 = sym_datetime(ctx, "t2_s", bars.START, lo, hi, subsecond=sub)
        trg = T.TimeRangeTrigger(T.TimeRange(t1, t2), do, a=kw_a, tag="x")
    elif kind == "ranges":
        t1 = sym_datetime(ctx, "t1_s", bars.START, lo, hi)
        t2 = sym_datetime(ctx, "t2_s", bars.START, lo, hi)
        t3 = sym_datetime(ctx, "t3_s", bars.START, lo, hi)
        t4 = sym_datetime(ctx, "t4_s", bars.START, lo, hi)
        trg = T.TimeRangesTrigger([T.TimeRange(t1, t2), T.TimeRange(t3, t4)], do, a=kw_a, tag="x")
    elif kind == "period":
        d1 = sym_timedelta(ctx, "d1_bars", S, (n + 2) * S, S)
        pend = sym_timedelta(ctx, "pending_bars", 0, (n + 2) * S, S)
        imm = ctx.flag("immediately")
        trg = T.PeriodTrigger(d1, do, trigger_immediately=imm, pending=pend, a=kw_a, tag="x")
    elif kind == "periods":
        d1 = sym_timedelta(ctx, "d1_bars", S, (n + 2) * S, S)
        d2 = sym_timedelta(ctx, "d2_bars", S, (n + 2) * S, S)
        pend = sym_timedelta(ctx, "pending_bars", 0, (n + 2) * S, S)
        imm = ctx.flag("immediately")
        trg = T.PeriodsTrigger([d1, d2], do, trigger_immediately=imm, pending=pend, a=kw_a, tag="x")
    else:
        raise ValueError(kind)

    comp_fired = []
    comp = None
    if p.get("companion"):
        # another trigger ahead of the one under test in the strategy's list: it retires on some bar of the run
        tc = sym_datetime(ctx, "companion_s", bars.START, 0, (n - 1) * S)
        comp = T.AtTimeTrigger(tc, lambda snapshot, **kw: comp_fired.append(snapshot.row_id))

    class Strat(Strategy):
        def initialize(self):
            if comp is not None:
                self.triggers.append(comp)
            self.triggers.append(trg)

        def after_bar(self, snapshot):
            present.append(any(x is trg for x in self.triggers))

    a.strategy = Strat()
    try:
        bars.run_quiet(a)
    except Exception as e:
        ctx.outcome("raised:" + type(e).__name__)
        ctx.check(f"{kind}: the run with this trigger raises no exception", False)
        return
    ctx.outcome("pattern:" + "".join("1" if any(f[0] == i for f in fired) else "0" for i in range(n)))
    ctx.check(f"{kind}: one account row per bar", len(a.account_status) == n)
    # ---- denotation per bar (seconds from START)
    b = [S * i for i in range(n)]

    def fm(t):  # to_minute in seconds
        s = secs_of(t, bars.START)
        return s - s % 60

    items = []
    for i in range(n):
        if kind == "at_time":
            den = fm(t1) == b[i]
        elif kind == "at_times":
            den = sor(fm(t1) == b[i], fm(t2) == b[i])
        elif kind == "range":
            den = sand(fm(t1) <= b[i], b[i] < fm(t2))
        elif kind == "ranges":
            den = sor(sand(fm(t1) <= b[i], b[i] < fm(t2)), sand(fm(t3) <= b[i], b[i] < fm(t4)))
        elif kind in ("period", "periods"):
            ds = [td_secs(d1)] + ([td_secs(d2)] if kind == "periods" else [])
            pe = td_secs(pend)
            if i == 0:
                den = imm
            else:
                den = sor(*[sand(b[i] - pe >= d, (b[i] - pe) % d == 0) for d in ds])
        n_f = sum(1 for f in fired if f[0] == i)
        items.append((f"{kind}: fires exactly on the bars the specification denotes", den if n_f > 0 else snot(den)))
        items.append((f"{kind}: the action runs once per firing", n_f <= 1))
    ctx.check_all(items)
    for f in fired:
        ctx.check(f"{kind}: the action receives the supplied extra arguments", sand(f[2].get("a") == kw_a, f[2].get("tag") == "x"))
        ctx.check(f"{kind}: snapshot timestamp is the bar's timestamp", f[1] == bar_t[f[0]])
    # ---- retirement: removed only if it can never fire again
    if False in present:
        r = present.index(False)
        if kind == "at_time":
            can_again = fm(t1) > b[r]
        elif kind == "at_times":
            can_again = sor(fm(t1) > b[r], fm(t2) > b[r])
        elif kind == "range":
            can_again = sand(fm(t2) > b[r] + S, fm(t2) > fm(t1))
        elif kind == "ranges":
            can_again = sor(sand(fm(t2) > b[r] + S, fm(t2) > fm(t1)), sand(fm(t4) > b[r] + S, fm(t4) > fm(t3)))
        else:
            can_again = True
        ctx.check(f"{kind}: a trigger is retired only when it can never fire again", snot(can_again))
        ctx.check(f"{kind}: a retired trigger stays retired", all(not x for x in present[r:]))
    ctx.check("CANARY trigger never fires", len(fired) == 0)


def scenarios(tier):
    n = 6 if tier == "quick" else 10
    out = []
    kinds = ("at_time", "at_times", "range", "ranges", "period", "periods")
    for kind in kinds:
        for step in (1, 5, 60) if tier == "thorough" else (1, 5):
            nn = n if kind not in ("ranges",) else min(n, 6)
            out.append(
                Scenario(
                    f"{kind}/{step}min/n{nn}", trigger_run, params=dict(kind=kind, bars=nn, step_min=step), shadows=SHADOWS,
                    entry=("Actuator.run", f"trigger {kind}: when/do/is_out_date"), canary="CANARY trigger never fires", max_paths=4000, time_budget_s=400, nlsat=False, witness_cap=30,
                )
            )
    # times with a sub-second part (the specification rounds trigger times down to the minute)
    for kind in ("at_time", "range"):
        out.append(Scenario(f"{kind}/1min/n4/subsecond", trigger_run, params=dict(kind=kind, bars=4, step_min=1, subsecond=True), shadows=SHADOWS, entry=("Actuator.run", "to_minute", f"trigger {kind}"), canary="CANARY trigger never fires", max_paths=4000, time_budget_s=400, nlsat=False, witness_cap=30))
    # a second trigger ahead in the list that retires during the run: every trigger is still evaluated on every bar
    for kind in ("at_time", "period", "range"):
        out.append(Scenario(f"{kind}/1min/n4/with_retiring_companion", trigger_run, params=dict(kind=kind, bars=4, step_min=1, companion=True), shadows=SHADOWS, entry=("Actuator.run", f"trigger {kind}"), canary="CANARY trigger never fires", max_paths=6000, time_budget_s=400, nlsat=False, witness_cap=30))
    # the actuator's own resampling: 1-minute data resampled to 5-minute bars
    for kind in ("at_time", "period"):
        out.append(
            Scenario(
                f"{kind}/resampled_5min/n4", trigger_run, params=dict(kind=kind, bars=4, step_min=5, resample="5min", resample_factor=5), shadows=SHADOWS,
                entry=("Actuator.run", "Actuator.switch_interval", f"trigger {kind}"), canary="CANARY trigger never fires", nlsat=False,
            )
        )
    return out
