"""C14 -- Squeeth vaults: 150 % collateral rule, TWAP pricing, liquidation amounts."""
from datetime import datetime, timedelta
from decimal import Decimal, getcontext

import pandas as pd

from ..harness import Scenario
from ..models.squeeth import SqueethWorld, SHADOWS, LP_RANGE
from ..symx import ite, sand, sor, snot, smin, smax, sabs, is_sym

D = Decimal
META = {
    "level": "model_checking",
    "level_text": "Bounded symbolic model checking of the real SqueethMarket (with its real oSQTH/WETH UniLpMarket): one operation from an arbitrary vault "
    "(ETH collateral, short amount, optionally a deposited LP position with symbolic liquidity and uncollected fees) with the operation "
    "amounts, the normalisation factor and the ETH / oSQTH prices symbolic. z3 proves: an accepted mint / collateral withdrawal / LP "
    "withdrawal leaves a vault with debt at >= 1.5x (ETH + LP at the index price vs short x norm x ETH / 1e4) and >= 0.5 ETH, requests "
    "that keep the vault safe with margin are accepted, wallet and vault move by exactly the stated amounts (burn clamped to the debt), "
    "amounts never go negative; at bar end (update) a vault is liquidated iff it is below 1.5x, with the LP redeemed first (2 % "
    "bounty), then half of the remaining debt (all if < 0.5 ETH would remain) against debt x oSQTH TWAP x 1.1 capped by the "
    "collateral. TWAP: on a grid of concrete 12-bar price frames the price used by the safety rule equals the exact geometric mean of "
    "the <= 7 one-minute rows ending at the current bar (computed by the harness in 50-digit arithmetic), incl. windows shorter than "
    "7 rows, and the accept/reject frontier of a mint is decided at that price.",
    "bounds": ["one vault under test plus one bystander vault; one operation (or one bar end) per scenario", "collateral in [0, 1e3] ETH, short in [0, 1e4] oSQTH, norm factor in [0.1, 1], ETH price in [500, 5000], oSQTH price in [0.01, 1] ETH, LP liquidity in [0, 1e21]", "TWAP windows: 6 concrete frames x bars {0, 3, 6, 7, 11}, rows 1 min apart and (3 frames) 2 / 5 min apart as after resampling; float log/pow not encoded (prices concrete there)"],
    "outside": ["TWAP over symbolic prices", "several operations in sequence (one inductive step from an arbitrary vault)"],
    "assumptions": ["Decimal modelled as exact reals", "vault pre-states installed directly (reachable by open_deposit_mint at an earlier row with safer prices)"],
}
IDX = D(10000)


def _coll(w, key, nf, P):
    v = w.m.vault[key]
    c = v.collateral_amount
    if v.uni_nft_id is not None:
        a0, a1 = w.lp_amounts(v.uni_nft_id)
        c = c + a0 + a1 * nf * P / IDX
    return c


def _safe(coll, s, nf, P):
    debt = s * nf * P / IDX
    return sor(s == 0, coll * 2 >= debt * 3)


def _world(ctx, lp, with_short=True):
    P = ctx.dec("eth_price", 500, 5000)
    po = ctx.dec("osqth_price", D("0.01"), 1)
    nf = ctx.dec("norm_factor", D("0.1"), 1)
    w = SqueethWorld(ctx, P, po, nf)
    c = ctx.dec("collateral", 0, 1000)
    s = ctx.dec("short", 0, 10000) if with_short else D(0)
    lpv = None
    if lp:
        lpv = (ctx.int_("lp_liquidity", 1, 10**21), ctx.dec("lp_pending_weth", 0, 10), ctx.dec("lp_pending_osqth", 0, 100))
    key = w.add_vault(c, s, lpv)
    by = w.add_vault(D(7), D(20))  # bystander vault, safe at every price in range? (7 ETH vs 20 x 1 x 5000 / 1e4 = 10 ETH debt max -> not always)
    return w, key, by, P, po, nf, c, s


def vault_op(ctx):
    p = ctx.p
    op = p["op"]
    w, key, by, P, po, nf, c, s = _world(ctx, p.get("lp", False))
    m = w.m
    # the vault under test starts safe (an unsafe vault is liquidated at bar end; operations on it are the next scenario's subject)
    ctx.assume(sand(_safe(_coll(w, key, nf, P), s, nf, P), sor(s == 0, _coll(w, key, nf, P) >= D("0.5"))))
    before = w.raw()
    weth0, osq0 = before["weth"], before["osqth"]
    d = q = b = wd = None
    free_lp = None
    try:
        if op == "mint":
            d, q = ctx.dec("deposit", 0, 500), ctx.dec("mint", 0, 5000)
            m.open_deposit_mint(d, q, vault_key=key)
        elif op == "open":
            d, q = ctx.dec("deposit", 0, 500), ctx.dec("mint", 0, 5000)
            key2, _ = m.open_deposit_mint(d, q)
        elif op == "deposit":
            d = ctx.dec("deposit", 0, 500)
            m.deposit(key, d)
        elif op == "burn_withdraw":
            b, wd = ctx.dec("burn", 0, 20000), ctx.dec("withdraw", 0, 2000)
            m.burn_and_withdraw(key, b, wd)
        elif op == "withdraw_lp":
            m.withdraw_uni_position(key, m.vault[key].uni_nft_id)
        elif op == "deposit_lp":
            free_lp = w.add_free_lp(ctx.int_("free_lp_liquidity", 0, 10**21))
            before = w.raw()
            m.deposit_uni_position(key, free_lp)
    except Exception as e:
        ctx.outcome("rejected:" + type(e).__name__)
        ok_type = type(e).__name__ in ("DemeterError", "AssertionError")
        ctx.check(f"{op}: only documented rejections are raised (got {type(e).__name__})", ok_type, detail=str(e)[:200])
        # completeness: a request that leaves the vault safe with margin (and is covered by the wallet) is accepted
        if op in ("mint", "open"):
            c1 = (_coll_after_add(w, key, nf, P, before, d) if op == "mint" else d)
            s1 = (s + q) if op == "mint" else q
            margin = c1 * 2 >= s1 * nf * P / IDX * 3 * (1 + D("1e-9"))
            fits = sand(sor(s1 == 0, sand(margin, c1 >= D("0.5") * (1 + D("1e-9")))), d <= weth0)
            ctx.check(f"{op}: a request that keeps the vault at >= 1.5x and >= 0.5 ETH (with margin) is accepted", snot(fits))
        return
    ctx.outcome("accepted")
    after = w.raw()
    k2 = key if op != "open" else key2
    v = m.vault[k2]
    coll = _coll(w, k2, nf, P)
    items = [
        (f"{op}: an accepted operation leaves a vault with debt at >= 1.5x its debt value", _safe(coll, v.osqth_short_amount, nf, P)),
        (f"{op}: an accepted operation leaves a vault with debt at >= 0.5 ETH", sor(v.osqth_short_amount == 0, coll >= D("0.5"))),
        (f"{op}: vault amounts stay non-negative", sand(v.collateral_amount >= 0, v.osqth_short_amount >= 0)),
        (f"{op}: wallet balances stay non-negative", sand(after["weth"] >= 0, after["osqth"] >= 0)),
        (f"{op}: the bystander vault is untouched", sand(m.vault[by].collateral_amount == 7, m.vault[by].osqth_short_amount == 20)),
    ]
    if op in ("mint", "open"):
        c_old, s_old = (c, s) if op == "mint" else (D(0), D(0))
        items += [
            (f"{op}: vault collateral grows by exactly the deposited ETH", v.collateral_amount == c_old + d),
            (f"{op}: vault short grows by exactly the minted oSQTH", v.osqth_short_amount == s_old + q),
            (f"{op}: wallet pays the deposited ETH", _paid(after["weth"], weth0, d)),
            (f"{op}: wallet receives the minted oSQTH", after["osqth"] == osq0 + q),
        ]
    elif op == "deposit":
        items += [(f"{op}: vault collateral grows by exactly the deposited ETH", v.collateral_amount == c + d), (f"{op}: wallet pays the deposited ETH", _paid(after["weth"], weth0, d)), (f"{op}: short amount untouched", v.osqth_short_amount == s)]
    elif op == "burn_withdraw":
        burned = smin(b, s)
        taken = smin(wd, c)
        items += [
            (f"{op}: burn is clamped to the vault's debt", v.osqth_short_amount == s - burned),
            (f"{op}: wallet pays exactly the burned oSQTH", _paid(after["osqth"], osq0, burned)),
            (f"{op}: withdrawal is clamped to the vault's collateral", v.collateral_amount == c - taken),
            (f"{op}: wallet receives exactly the withdrawn ETH", after["weth"] == weth0 + taken),
        ]
    elif op == "withdraw_lp":
        items += [(f"{op}: the LP position returns to the user", sand(v.uni_nft_id is None, not w.uni.positions[before["vault"][key.id][2]].transferred)), (f"{op}: ETH collateral and debt untouched", sand(v.collateral_amount == c, v.osqth_short_amount == s))]
    elif op == "deposit_lp":
        items += [(f"{op}: the LP position is lent to the vault", sand(v.uni_nft_id == free_lp, w.uni.positions[free_lp].transferred)), (f"{op}: ETH collateral and debt untouched", sand(v.collateral_amount == c, v.osqth_short_amount == s))]
    if __import__("os").environ.get("VERIF_SHOW"):
        for nme, cnd in items:
            ctx.check(nme, cnd, show={"weth": after["weth"], "osqth": after["osqth"], "vc": v.collateral_amount, "vs": v.osqth_short_amount})
    else:
        ctx.check_all(items)
    ctx.check("CANARY operations never move the wallet", sand(after["weth"] == weth0, after["osqth"] == osq0))


def _paid(now, before, amount):
    """wallet debit with the wallet's own 1e-5 dust snap"""
    import fractions
    from .. import symx

    thr = fractions.Fraction(0.00001)  # Asset.sub compares with the float literal 0.00001
    bound = (symx.sym_dec(before) if is_sym(before) else fractions.Fraction(before)) * thr
    return sor(now == before - amount, sand(now == 0, sabs(before - amount) <= bound))


def _coll_after_add(w, key, nf, P, before, d):
    return _coll(w, key, nf, P) if False else (_coll_static(w, key, nf, P, before) + d)


def _coll_static(w, key, nf, P, before):
    c0, s0, nft = before["vault"][key.id]
    c = c0
    if nft is not None:
        a0, a1 = w.lp_amounts(nft)
        c = c + a0 + a1 * nf * P / IDX
    return c


def liquidation(ctx):
    p = ctx.p
    lp = p.get("lp", False)
    w, key, by, P, po, nf, c, s = _world(ctx, lp)
    m = w.m
    ctx.assume(s >= D("0.001"))
    # representation invariant: a vault with debt holds >= 0.5 ETH (every operation and every liquidation step enforces it;
    # for an LP-backed vault the ETH part may be smaller, the effective collateral was >= 0.5 ETH when last checked)
    if not lp:
        ctx.assume(c >= D("0.5"))
    # keep the bystander safe so that only the vault under test can be liquidated: 7 ETH * 2 >= 20 * nf * P / 1e4 * 3
    ctx.assume(D(14) >= D(60) * nf * P / IDX)
    coll0 = _coll(w, key, nf, P)
    safe0 = _safe(coll0, s, nf, P)
    lp_w, lp_o = w.lp_amounts(m.vault[key].uni_nft_id) if lp else (D(0), D(0))
    before = w.raw()
    try:
        m.update()
    except Exception as e:
        ctx.outcome("raised:" + type(e).__name__)
        ctx.check(f"the bar-end update raises no exception (got {type(e).__name__})", False, detail=str(e)[:200])
        return
    after = w.raw()
    acts = w.actions[before["n_actions"]:]
    liq = [a for a in acts if type(a).__name__ == "LiquidationAction"]
    red = [a for a in acts if type(a).__name__ == "ReduceDebtAction"]
    touched = len(liq) + len(red) > 0
    ctx.outcome(f"liq={len(liq)},reduce={len(red)}")
    v = m.vault[key]
    items = [
        ("a vault is liquidated at bar end if and only if it is below 1.5x", sor(sand(touched, snot(safe0)), sand(not touched, safe0))),
        ("vault amounts never go negative", sand(v.collateral_amount >= 0, v.osqth_short_amount >= 0)),
        ("the bystander vault is untouched", sand(m.vault[by].collateral_amount == 7, m.vault[by].osqth_short_amount == 20)),
        ("liquidation never takes WETH from the wallet", after["weth"] == before["weth"]),
    ]
    if not touched:
        items.append(("an untouched vault keeps its amounts", sand(v.collateral_amount == c, v.osqth_short_amount == s)))
        ctx.check_all(items)
        return
    # ---- oracle
    s1, c1, bounty = s, c, D(0)
    if lp:
        bounty = smin((lp_o * po + lp_w) * D("0.02"), c + lp_w)  # 2 % bounty, capped at the ETH the vault holds
        burn = smin(lp_o, s)
        excess = lp_o - burn
        s1 = s - burn
        c1 = c + lp_w - bounty
        items.append(("LP collateral is redeemed first: exactly one ReduceDebt record", len(red) == 1))
        if red:
            r = red[0]
            items.append(("reduce-debt: burns min(LP oSQTH, debt), pays a 2 % bounty, returns the excess oSQTH to the wallet", sand(ctx.close(r.burn_amount, burn, rel=D("1e-25")), ctx.close(r.bounty, bounty, rel=D("1e-25")), ctx.close(after["osqth"], before["osqth"] + excess, rel=D("1e-25")))))
        items.append(("after reduce-debt the vault holds no LP position", v.uni_nft_id is None))
    safe1 = _safe(c1, s1, nf, P)
    # second stage only if still unsafe
    c1b = c1 + bounty
    half = s1 / 2
    pay_half = half * po * D("1.1")
    full_needed = c1b - pay_half < D("0.5")  # "all of it if the vault would be left with under 0.5 ETH"
    amt = ite(full_needed, s1, half)
    pay = amt * po * D("1.1")
    capped = pay > c1b
    amt = ite(capped, s1, amt)
    pay = ite(capped, c1b, pay)
    exp_s = ite(safe1, s1, s1 - amt)
    exp_c = ite(safe1, c1, c1b - pay)
    items += [
        ("after liquidation the short amount follows the rule (half, or all when < 0.5 ETH would remain or collateral is exhausted)", ctx.close(v.osqth_short_amount, exp_s, rel=D("1e-25"), abs_=D("1e-25"))),
        ("after liquidation the collateral follows the rule (debt x oSQTH TWAP x 1.1, capped at the collateral)", ctx.close(v.collateral_amount, exp_c, rel=D("1e-25"), abs_=D("1e-25"))),
        ("a liquidation record exists iff the vault was still unsafe after reduce-debt", sor(sand(len(liq) == 1, snot(safe1)), sand(len(liq) == 0, safe1))),
    ]
    if liq:
        a = liq[0]
        items.append(("the liquidation record matches the state change", sand(ctx.close(a.liquidate_amount, amt, rel=D("1e-25"), abs_=D("1e-25")), ctx.close(a.collateral_to_pay, pay, rel=D("1e-25"), abs_=D("1e-25")), a.short_amount_after == v.osqth_short_amount, a.collateral_after == v.collateral_amount)))
    ctx.check_all(items)
    ctx.check("CANARY liquidation never changes the vault", sand(v.collateral_amount == c, v.osqth_short_amount == s))


# ------------------------------------------------------------------------------------------------ TWAP on concrete windows

FRAMES = {
    "rising": [1800 + 7 * i for i in range(12)],
    "falling": [2200 - 11 * i for i in range(12)],
    "spike": [2000, 2000, 2000, 2000, 2000, 2600, 2000, 2000, 2000, 2000, 1500, 2000],
    "step": [1500] * 6 + [2500] * 6,
    "flat": [2000] * 12,
    "saw": [1900, 2100] * 6,
}
T0 = datetime(2023, 8, 14, 0, 0)


def _geo_mean(xs):
    getcontext().prec = 60
    prod = D(1)
    for x in xs:
        prod *= D(str(x))
    n = len(xs)
    # n-th root by Newton in 60-digit arithmetic
    g = D(str(float(prod) ** (1.0 / n)))
    for _ in range(60):
        g = g - (g**n - prod) / (n * g ** (n - 1))
    getcontext().prec = 35
    return g


def twap(ctx):
    p = ctx.p
    eth = FRAMES[p["frame"]]
    n = len(eth)
    osq = [D("0.05") + D("0.004") * ((i * 5) % 7) for i in range(n)]
    step = p.get("step_min", 1)
    idx = pd.date_range(T0, periods=n, freq=f"{step}min")
    data = pd.DataFrame({"norm_factor": [D("0.4")] * n, "WETH": [D(x) for x in eth], "OSQTH": osq}, index=idx)
    k = p["bar"]
    w = SqueethWorld(ctx, None, None, None, timestamp=idx[k].to_pydatetime(), data=data)
    m = w.m
    # rows whose timestamps lie in the seven-minute window [now - 6 min, now]
    lo = max(0, k - 6 // step)
    g_eth = _geo_mean(eth[lo : k + 1])
    g_osq = _geo_mean(osq[lo : k + 1])
    t_eth = m.get_twap_price(w.WETH)
    t_osq = m.get_twap_price(w.OSQTH)
    ctx.outcome("twap")
    rel = D("1e-9")
    ctx.check("TWAP ETH price == geometric mean of the <= 7 one-minute rows ending at the current bar", abs(D(t_eth) - g_eth) <= rel * g_eth)
    ctx.check("TWAP oSQTH price == geometric mean of the <= 7 one-minute rows ending at the current bar", abs(D(t_osq) - g_osq) <= rel * g_osq)
    # the safety rule of a mint is decided at that price
    d, q = ctx.dec("deposit", D("0.5"), 500), ctx.dec("mint", D("0.001"), 5000)
    nf = D("0.4")
    debt_lo = q * nf * g_eth * (1 - rel) / IDX
    debt_hi = q * nf * g_eth * (1 + rel) / IDX
    try:
        key, _ = m.open_deposit_mint(d, q)
    except Exception as e:
        ctx.outcome("rejected")
        ctx.check("a mint that is >= 1.5x collateralised at the TWAP ETH price (with margin) is accepted", snot(d * 2 >= debt_hi * 3))
        return
    ctx.outcome("accepted")
    ctx.check("an accepted mint is >= 1.5x collateralised at the TWAP ETH price", d * 2 >= debt_lo * 3)
    ctx.check("CANARY every mint is accepted", False)


def scenarios(tier):
    out = []
    kw = dict(shadows=SHADOWS, nlsat=True, query_timeout_ms=20000, max_paths=400, time_budget_s=300)
    for op in ("mint", "open", "deposit", "burn_withdraw"):
        for lp in (False, True):
            if op == "open" and lp:
                continue
            out.append(Scenario(f"op/{op}/{'lp' if lp else 'eth'}", vault_op, params=dict(op=op, lp=lp), entry=(f"SqueethMarket.{op}", "_check_vault", "get_vault_status", "_get_effective_collateral_in_eth"), canary="CANARY operations never move the wallet" if op == "mint" and not lp else None, **kw))
    out.append(Scenario("op/withdraw_lp", vault_op, params=dict(op="withdraw_lp", lp=True), entry=("SqueethMarket.withdraw_uni_position",), **kw))
    out.append(Scenario("op/deposit_lp", vault_op, params=dict(op="deposit_lp", lp=False), entry=("SqueethMarket.deposit_uni_position",), **kw))
    for lp in (False, True):
        out.append(Scenario(f"liquidation/{'lp' if lp else 'eth'}", liquidation, params=dict(lp=lp), entry=("SqueethMarket.update", "liquidate", "_reduce_debt", "_liquidate", "_get_liquidation_result"), canary="CANARY liquidation never changes the vault", **kw))
    bars_ = (0, 3, 6, 7, 11) if tier != "quick" else (0, 3, 7, 11)
    for fr in FRAMES:
        for k in bars_:
            if tier == "quick" and fr in ("flat", "saw") and k != 7:
                continue
            if fr in ("rising", "spike", "step"):
                for st in (5, 2):
                    out.append(Scenario(f"twap/{fr}/bar{k}/{st}min_rows", twap, params=dict(frame=fr, bar=k, step_min=st), entry=("SqueethMarket.get_twap_price", "calc_twap_price", "open_deposit_mint"), **dict(kw, nlsat=False)))
            out.append(Scenario(f"twap/{fr}/bar{k}", twap, params=dict(frame=fr, bar=k), entry=("SqueethMarket.get_twap_price", "calc_twap_price", "open_deposit_mint"), canary="CANARY every mint is accepted" if (fr, k) == ("rising", 7) else None, **dict(kw, nlsat=False)))
    return out
