"""C01 -- reported net value equals an independent valuation of wallet plus positions."""
from decimal import Decimal

from ..harness import Scenario

D = Decimal
META = {
    "level": "model_checking",
    "level_text": "Bounded symbolic model checking: a real Broker with real markets is put into an arbitrary valid state (wallet balances, prices, "
    "liquidity and pending fees, scaled supplies/debts and indices, vault collateral / short / lent LP position, option cash and holdings, "
    "GLP and reward, GM amount symbolic) and, from it, one real operation with symbolic arguments is executed; before and after the "
    "operation (accepted or rejected) z3 proves that Broker.get_account_status(prices).net_value, asset_value and every market's "
    "get_market_balance().net_value equal the harness's own valuation of the raw holdings (v3 closed forms at the bar price plus pending "
    "fees; scaled balance x index x price; vault ETH + lent LP at index price minus short; cash + options at mark; GLP x price + reward; "
    "GM x pool value per share), converted by the market's quote-token price, every holding counted exactly once.",
    "bounds": [
        "states reachable by one operation from the symbolic pre-state shapes in vf/models/nv.py (<= 2 positions per market, <= 3 Aave tokens)",
        "market combinations: each market alone, Uniswap + Squeeth with an LP position lent to a vault, market quote token equal to / different from the account quote token",
        "Uniswap pool tick / ranges from a grid; GMX pool rows from a grid; Squeeth TWAP bypassed by the code's own timestamp=None mode (TWAP windows are C14)",
    ],
    "outside": ["Deribit between hourly bars (the market reports its last open-bar value by design)", "Decimal rounding below 1e-20 relative; float code (GMX v2) in real arithmetic"],
    "assumptions": ["Aave get_market_balance quantises totals to 1e-4: 1e-4 absolute tolerance on Aave net value (DESIGN 6.2)", "Deribit marks are rounded to the 1e-6 fee step by the code"],
}


def scenarios(tier):
    from ..models import nv_scenarios

    return nv_scenarios.scenarios("C01", tier)
