"""C10 -- Aave balances accrue exactly with the indices; operations move the stated amounts."""
from decimal import Decimal

from ..harness import Scenario
from ..models.aave import AaveWorld, SHADOWS
from ..symx import ite, smax, sabs, sand, sor

D = Decimal
META = {
    "level": "model_checking",
    "level_text": "Bounded symbolic model checking of the real AaveV3Market: (a) supply/withdraw/borrow/repay sequences with all amounts, "
    "indices and prices symbolic; z3 proves on every feasible path that balances equal amount x index ratio and that wallet, "
    "position and action record move by exactly the stated amounts; (b) an inductive step: from an ARBITRARY valid portfolio (scaled "
    "balances, both indices and price per token, wallet all symbolic) one real operation with a symbolic amount moves the scaled balance "
    "by exactly amount / index of the current bar (the token's own index), the wallet by the stated amount, leaves every component it "
    "does not name untouched, and after a later bar with arbitrary larger indices every reported balance is scaled balance x that bar's "
    "index -- one step from an unconstrained pre-state stands for histories of any length; (c) op(a1); op(a2) versus op(a1 + a2) from the "
    "same symbolic portfolio end in the same state within 2e-18 scaled. Holds for every value inside the bounds.",
    "bounds": [
        "sequences of <= 3 user operations with <= 3 bar changes between them, <= 2 tokens",
        "amounts in (0, 1e12], indices in [1, 10] non-decreasing, prices in (0, 1e7]",
        "inductive step and split/merge: portfolio shapes A-C (quick) / A-L (thorough) of vf/models/aave.py, scaled amounts in [1e-9,1e9], indices [1,4] then [idx,8], prices [1e-3,1e5], amounts in [0,1e10]",
    ],
    "outside": ["portfolios of more than 3 tokens", "acceptance of a split repayment that the wallet covers only through its own 1e-5 snap (the wallet's dust rule, C03)", "Decimal rounding below 1e-30 relative"],
    "assumptions": ["Decimal arithmetic modelled as exact reals; equalities proved with slack 1e-25 relative (DESIGN 6.1)"],
}
REL = D("1e-25")
DUST18 = D("2e-18")
HUGE = D(10) ** 12


DECIMALS = {"USDC": 6, "USDT": 6}


def _S(ctx):
    """token supplied in the scenario (18 decimals by default; the 6-decimal variants exercise decimal-dependent code)"""
    return ctx.p.get("supply_token", "WETH")


def _B(ctx):
    """token borrowed / second token"""
    return ctx.p.get("borrow_token", "DAI")


def _idx(ctx, name, lo=1):
    return ctx.dec(name, lo, 10)


def _wallet_after(ctx, name, after, before, delta):
    """wallet moved by exactly delta, up to the wallet's own dust snap (1e-5 of the balance)"""
    exact = after == before + delta
    snap = sand(after == 0, sabs(before + delta) <= D("1.0001e-5") * before)
    return ctx.check(name, sor(exact, snap))


def supply_accrual(ctx):
    """supply a1 @li0 ; bar ; supply a2 @li1 ; bar @li2 -> amount == a1*li2/li0 + a2*li2/li1"""
    w = AaveWorld(ctx, [_S(ctx), _B(ctx)], decimals=DECIMALS)
    t = w.tok(_S(ctx))
    a1 = ctx.dec("a1", 0, HUGE, lo_open=True)
    a2 = ctx.dec("a2", 0, HUGE, lo_open=True)
    w0 = ctx.dec("wallet0", 0, HUGE * 4)
    li0 = _idx(ctx, "li0")
    li1 = _idx(ctx, "li1")
    li2 = _idx(ctx, "li2")
    ctx.assume(sand(li0 <= li1, li1 <= li2))
    p = ctx.dec("p_weth", 0, 10**7, lo_open=True)
    coll = ctx.flag("collateral")
    other = ctx.flag("other_token_op_between")
    one, pr = {_S(ctx): D(1), _B(ctx): D(1)}, {_S(ctx): p, _B(ctx): D(1)}
    w.broker.set_balance(t, w0)
    w.broker.set_balance(w.tok(_B(ctx)), D(1000))
    w.set_row({_S(ctx): li0, _B(ctx): D(1)}, one, pr)
    try:
        w.market.supply(t, a1, coll)
    except AssertionError:
        ctx.outcome("rejected-1")
        ctx.check("supply within wallet balance is accepted", a1 > w0)
        return
    _wallet_after(ctx, "supply: wallet decreases by exactly the stated amount", w.broker.get_token_balance(t), w0, -a1)
    ctx.check("supply: position amount equals stated amount", ctx.close(w.market.get_supply(t).amount, a1, rel=REL))
    act = w.actions[-1]
    ctx.check("supply: action records the stated amount", act.amount == a1)
    ctx.check("supply: action deposit_after equals position", ctx.close(act.deposit_after, a1, rel=REL))
    w.set_row({_S(ctx): li1, _B(ctx): D(1)}, one, pr)
    ctx.check("accrual after one bar: amount == a1*li1/li0", ctx.close(w.market.get_supply(t).amount, a1 * li1 / li0, rel=REL))
    if other:
        w.market.supply(w.tok(_B(ctx)), D(10), True)
    wal1 = w.broker.get_token_balance(t)
    try:
        w.market.supply(t, a2, coll)
    except AssertionError:
        ctx.outcome("rejected-2")
        ctx.check("second supply within wallet balance is accepted", a2 > wal1)
        return
    _wallet_after(ctx, "second supply: wallet decreases by exactly the stated amount", w.broker.get_token_balance(t), wal1, -a2)
    w.set_row({_S(ctx): li2, _B(ctx): D("1.5")}, one, pr)
    if other:
        w.market.withdraw(w.tok(_B(ctx)), D(5))
    exp = a1 * li2 / li0 + a2 * li2 / li1
    got = w.market.get_supply(t).amount
    ctx.observe("supply_amount", got)
    ctx.outcome("accepted")
    ctx.check("accrual: amount == a1*li2/li0 + a2*li2/li1", ctx.close(got, exp, rel=REL))
    ctx.check("CANARY accrual ignores index", ctx.close(got, a1 + a2, rel=REL))
    ctx.check("supplies view agrees", ctx.close(w.market.supplies[t].amount, exp, rel=REL))


def withdraw_moves(ctx):
    """supply a @li0 ; bar @li1 ; withdraw x -> wallet += x, position -= x ; full withdrawal removes the entry"""
    w = AaveWorld(ctx, [_S(ctx), _B(ctx)], decimals=DECIMALS)
    t = w.tok(_S(ctx))
    a = ctx.dec("a", D("1e-6"), HUGE)
    li0 = _idx(ctx, "li0")
    li1 = _idx(ctx, "li1")
    ctx.assume(li0 <= li1)
    p = ctx.dec("p_weth", 0, 10**7, lo_open=True)
    mode = ctx.choose("mode", 3)  # 0: explicit amount, 1: amount=None (everything), 2: explicit amount equal to the balance
    one, pr = {_S(ctx): D(1), _B(ctx): D(1)}, {_S(ctx): p, _B(ctx): D(1)}
    w.broker.set_balance(t, a * 2 + 1)
    w.set_row({_S(ctx): li0, _B(ctx): D(1)}, one, pr)
    w.market.supply(t, a, ctx.flag("collateral"))
    w.set_row({_S(ctx): li1, _B(ctx): D(1)}, one, pr)
    wal0 = w.broker.get_token_balance(t)
    held = a * li1 / li0
    if mode == 0:
        x = ctx.dec("x", 0, HUGE * 20)
    elif mode == 1:
        x = None
    else:
        x = w.market.get_supply(t).amount
    n_act = len(w.actions)
    try:
        w.market.withdraw(t, x)
    except AssertionError as e:
        ctx.outcome("rejected")
        xx = x if x is not None else held
        ctx.check("withdraw of a positive amount within the supplied balance (no debt) is accepted", sor(xx <= 0, xx > held * (1 - REL)))
        ctx.check("a rejected withdraw leaves position and wallet where they were", sand(t in w.market._supplies and ctx.close(w.market.get_supply(t).amount, held, rel=REL), w.broker.get_token_balance(t) == wal0, len(w.actions) == n_act))
        return
    ctx.outcome("accepted")
    xx = x if x is not None else held
    ctx.check("withdraw: amount within held", xx <= held * (1 + REL))
    ctx.check("withdraw: wallet increases by exactly the stated amount", ctx.close(w.broker.get_token_balance(t), wal0 + xx, rel=REL))
    present = t in w.market._supplies
    rest = w.market.get_supply(t).amount if present else D(0)
    ctx.observe("rest", rest)
    ctx.check("withdraw: position decreases by the stated amount (1e-18 dust)", ctx.close(rest, held - xx, rel=REL, abs_=DUST18 * 10))
    ctx.check("withdraw: one action recorded", len(w.actions) == n_act + 1)
    ctx.check("withdraw: action records the stated amount", ctx.close(w.actions[-1].amount, xx, rel=REL))
    ctx.check("withdraw: action deposit_after equals position", ctx.close(w.actions[-1].deposit_after, rest, rel=REL, abs_=DUST18 * 10))
    if mode != 0:
        ctx.check("full withdrawal removes the supply entry", not present)
    ctx.check("CANARY withdraw leaves position", ctx.close(rest, held, rel=REL))


def borrow_accrual(ctx):
    """collateral ; borrow b1 @bi0 ; bar ; borrow b2 @bi1 ; bar @bi2 -> debt == b1*bi2/bi0 + b2*bi2/bi1"""
    w = AaveWorld(ctx, [_S(ctx), _B(ctx)], decimals=DECIMALS)
    tc, td = w.tok(_S(ctx)), w.tok(_B(ctx))
    b1 = ctx.dec("b1", D("1e-6"), 10**9)
    b2 = ctx.dec("b2", D("1e-6"), 10**9)
    bi0 = _idx(ctx, "bi0")
    bi1 = _idx(ctx, "bi1")
    bi2 = _idx(ctx, "bi2")
    ctx.assume(sand(bi0 <= bi1, bi1 <= bi2))
    wd0 = ctx.dec("wallet_dai0", 0, 10**9)
    one = {_S(ctx): D(1), _B(ctx): D(1)}
    pr = {_S(ctx): D(10) ** 7, _B(ctx): D(1)}
    w.broker.set_balance(tc, D(10) ** 9)
    w.broker.set_balance(td, wd0)
    w.set_row(one, {_S(ctx): D(1), _B(ctx): bi0}, pr)
    w.market.supply(tc, D(10) ** 8, True)  # 1e15 USD of collateral: every borrow below is within limits
    w.market.borrow(td, b1)
    ctx.check("borrow: wallet increases by exactly the stated amount", w.broker.get_token_balance(td) == wd0 + b1)
    ctx.check("borrow: debt equals the stated amount", ctx.close(w.market.get_borrow(td).amount, b1, rel=REL))
    ctx.check("borrow: action records the stated amount", w.actions[-1].amount == b1)
    ctx.check("borrow: action debt_after equals debt", ctx.close(w.actions[-1].debt_after, b1, rel=REL))
    w.set_row(one, {_S(ctx): D(1), _B(ctx): bi1}, pr)
    ctx.check("debt accrual after one bar: debt == b1*bi1/bi0", ctx.close(w.market.get_borrow(td).amount, b1 * bi1 / bi0, rel=REL))
    w.market.borrow(td, b2)
    w.set_row(one, {_S(ctx): D(1), _B(ctx): bi2}, pr)
    exp = b1 * bi2 / bi0 + b2 * bi2 / bi1
    got = w.market.get_borrow(td).amount
    ctx.observe("debt", got)
    ctx.outcome("accepted")
    ctx.check("accrual: debt == b1*bi2/bi0 + b2*bi2/bi1", ctx.close(got, exp, rel=REL))
    ctx.check("borrows view agrees", ctx.close(w.market.borrows[td].amount, exp, rel=REL))
    ctx.check("CANARY debt ignores index", ctx.close(got, b1 + b2, rel=REL))
    ctx.check("wallet holds both borrowed amounts", w.broker.get_token_balance(td) == wd0 + b1 + b2)


def repay_moves(ctx):
    """debt b @bi0 ; bar @bi1 ; repay y (cash / with collateral) -> exact movements ; full repay removes the entry"""
    w = AaveWorld(ctx, [_S(ctx), _B(ctx)], decimals=DECIMALS)
    tc, td = w.tok(_S(ctx)), w.tok(_B(ctx))
    b = ctx.dec("b", D("1e-6"), 10**9)
    bi0 = _idx(ctx, "bi0")
    bi1 = _idx(ctx, "bi1")
    ctx.assume(bi0 <= bi1)
    li1 = _idx(ctx, "li_weth1")
    pw = ctx.dec("p_weth", 1, 10**7)
    mode = ctx.choose("mode", 4)  # 0 cash amount, 1 cash None(all), 2 with collateral amount, 3 with collateral None
    one = {_S(ctx): D(1), _B(ctx): D(1)}
    w.broker.set_balance(tc, D(10) ** 9)
    w.broker.set_balance(td, D(0))
    w.set_row(one, {_S(ctx): D(1), _B(ctx): bi0}, {_S(ctx): D(10) ** 7, _B(ctx): D(1)})
    w.market.supply(tc, D(10) ** 8, True)
    w.market.borrow(td, b)
    wd = ctx.dec("wallet_dai", 0, 10**10)
    w.broker.set_balance(td, wd)
    w.set_row({_S(ctx): li1, _B(ctx): D(1)}, {_S(ctx): D(1), _B(ctx): bi1}, {_S(ctx): pw, _B(ctx): D(1)})
    debt = b * bi1 / bi0
    coll_before = w.market.get_supply(tc).amount
    y = ctx.dec("y", 0, 10**11) if mode in (0, 2) else None
    n_act = len(w.actions)
    try:
        if mode < 2:
            w.market.repay(td, y)
        else:
            w.market.repay(td, y, repay_with_collateral=True, repay_collateral_token=tc)
    except AssertionError as e:
        ctx.outcome("rejected")
        yy = y if y is not None else debt
        if mode < 2:
            ctx.check("repay of a positive amount within debt and wallet is accepted", sor(yy <= 0, yy > debt * (1 - REL), yy > wd * (1 - D("1e-4"))))
        else:
            ctx.check("repay-with-collateral of a positive amount within debt is accepted", sor(yy <= 0, yy > debt * (1 - REL)))
        ctx.check("a rejected repay leaves the debt where it was", td in w.market._borrows and ctx.close(w.market.get_borrow(td).amount, debt, rel=REL))
        ctx.check("a rejected repay leaves wallet and collateral where they were", sand(w.broker.get_token_balance(td) == wd, ctx.close(w.market.get_supply(tc).amount, coll_before, rel=REL)))
        ctx.check("a rejected repay records no action", len(w.actions) == n_act)
        return
    ctx.outcome("accepted")
    yy = y if y is not None else debt
    if mode >= 2:
        # contract semantics kept by the code: the repayment is capped by the collateral's worth
        yy = ite(yy * 1 / pw > coll_before, coll_before * pw, yy)
    ctx.check("repay: amount within debt (1e-18 rounding)", yy <= debt + DUST18 * 10)
    present = td in w.market._borrows
    rest = w.market.get_borrow(td).amount if present else D(0)
    ctx.observe("rest", rest)
    ctx.check("repay: debt decreases by the stated amount (1e-18 dust)", ctx.close(rest, smax(debt - yy, 0), rel=REL, abs_=DUST18 * 10))
    if mode < 2:
        _wallet_after(ctx, "repay: wallet decreases by exactly the stated amount", w.broker.get_token_balance(td), wd, -yy)
        ctx.check("repay: collateral untouched", ctx.close(w.market.get_supply(tc).amount, coll_before, rel=REL))
    else:
        ctx.check("repay with collateral: wallet untouched", w.broker.get_token_balance(td) == wd)
        crest = w.market.get_supply(tc).amount if tc in w.market._supplies else D(0)
        ctx.check("repay with collateral: collateral decreases by the repaid value", ctx.close(crest, coll_before - yy / pw, rel=REL, abs_=DUST18 * 10))
    ctx.check("repay: one action recorded", len(w.actions) == n_act + 1)
    ctx.check("repay: action records the repaid amount", ctx.close(w.actions[-1].amount, yy, rel=REL))
    ctx.check("repay: action debt_after equals debt", ctx.close(w.actions[-1].debt_after, rest, rel=REL, abs_=DUST18 * 10))
    if mode == 1:
        ctx.check("full repayment removes the debt entry", not present)
    ctx.check("CANARY repay leaves debt", ctx.close(rest, debt, rel=REL))


# ------------------------------------------------------------------------------------------------------------------
# Inductive step: ONE operation (or one new bar) from an ARBITRARY valid portfolio.  Because the pre-state's scaled
# balances, indices, prices and wallet are unconstrained symbols, what is proved here for one step holds after any
# history of bars and operations: scaled balance moves by exactly +-amount/index_now, everything else stays, and the
# reported balance is scaled x index of the bar that is current -- hence amount x index_now / index_then.


def _op_call(ctx, w, op, tok, tok2, tag, amount=None, none_ok=True):
    """one real operation; returns (accepted, stated amount or None, exception)"""
    m, t = w.market, w.tok(tok)
    use_none = none_ok and amount is None and ctx.flag(f"{tag}none")
    a = None if use_none else (amount if amount is not None else ctx.dec(f"{tag}amt", 0, 10**10))
    try:
        if op == "supply":
            if a is None:
                a = ctx.dec(f"{tag}amt", 0, 10**10)
            m.supply(t, a, w.ctx.p.get("coll_flag", True) if t not in m._supplies else m._supplies[t].collateral)
        elif op == "withdraw":
            m.withdraw(t, a)
        elif op == "borrow":
            m.borrow(t, a)
        elif op == "repay":
            m.repay(t, a)
        elif op == "repay_coll":
            m.repay(t, a, repay_with_collateral=True, repay_collateral_token=w.tok(tok2))
        else:
            raise ValueError(op)
    except Exception as e:  # rejections of every documented kind
        return False, a, e
    return True, a, None


def _frame(ctx, st0, st1, touched_sup=(), touched_bor=(), touched_wal=(), what=""):
    """every component the operation does not name is left exactly as it was"""
    items = []
    for n in st0["sup"]:
        if n not in touched_sup:
            items.append((f"{what}: other supplies keep their scaled balance and flag", n in st1["sup"] and sand(st1["sup"][n][0] == st0["sup"][n][0], st1["sup"][n][1] == st0["sup"][n][1])))
    for n in st0["bor"]:
        if n not in touched_bor:
            items.append((f"{what}: other debts keep their scaled balance", n in st1["bor"] and st1["bor"][n] == st0["bor"][n]))
    for n in st0["wal"]:
        if n not in touched_wal:
            items.append((f"{what}: other wallet balances untouched", st1["wal"][n] == st0["wal"][n]))
    items.append((f"{what}: no position appears for a token the operation does not name", set(st1["sup"]) - set(touched_sup) == set(st0["sup"]) - set(touched_sup) and set(st1["bor"]) - set(touched_bor) == set(st0["bor"]) - set(touched_bor)))
    ctx.check_all(items)


CL = D("1e-18")  # sub_base_amount's clamp: a scaled residue below 1e-18 is dropped


def _scaled_after_sub(ctx, what, present, after, before, delta):
    """scaled balance after subtracting delta: before - delta, or removed when the residue is below the 1e-18 clamp"""
    if present:
        ctx.check(f"{what}: scaled balance decreases by exactly amount / index", ctx.close(after, before - delta, rel=REL))
        ctx.check(f"{what}: an entry that stays holds at least the 1e-18 clamp", after >= CL * (1 - D("1e-6")))
    else:
        ctx.check(f"{what}: the entry disappears only when nothing above the 1e-18 clamp is left", before - delta <= CL * (1 + D("1e-6")))


def one_step(ctx):
    from ..models.aave import sym_portfolio

    p = ctx.p
    op, tok, tok2 = p["op"], p["tok"], p["tok2"]
    w = sym_portfolio(ctx, p["shape"])
    li, bi, pr = w.row["li"], w.row["bi"], w.price
    st0 = w.raw()
    n_act = len(w.actions)
    ok, a, exc = _op_call(ctx, w, op, tok, tok2, "")
    st1 = w.raw()
    if not ok:
        ctx.outcome("rejected:" + type(exc).__name__)
        from ..models.aave import states_equal

        states_equal(ctx, st0, st1, f"{op} rejected")
        return
    ctx.outcome("accepted" + ("-all" if a is None else ""))
    ctx.check(f"{op}: exactly one action recorded", len(w.actions) == n_act + 1)
    act = w.actions[-1]
    stated = act.amount  # what the operation says it moved
    if a is not None and op != "repay_coll":
        ctx.check(f"{op}: the action records the requested amount", act.amount == a)
    ctx.check(f"{op}: moved amount is never negative", stated >= 0)
    s0 = st0["sup"].get(tok, (D(0), None))[0]
    b0 = st0["bor"].get(tok, D(0))
    if op == "supply":
        ctx.check("supply: scaled balance increases by exactly amount / liquidity index", tok in st1["sup"] and ctx.close(st1["sup"][tok][0], s0 + stated / li[tok], rel=REL))
        _wallet_after(ctx, "supply: wallet decreases by exactly the stated amount", st1["wal"][tok], st0["wal"][tok], -stated)
        ctx.check("supply: action deposit_after equals scaled balance x index", ctx.close(act.deposit_after, st1["sup"][tok][0] * li[tok], rel=REL))
        _frame(ctx, st0, st1, (tok,), (), (tok,), "supply")
    elif op == "withdraw":
        if a is None:
            ctx.check("withdraw(None): withdraws the whole balance", ctx.close(stated, s0 * li[tok], rel=REL))
            ctx.check("withdraw(None): the supply entry disappears", tok not in st1["sup"])
        present = tok in st1["sup"]
        _scaled_after_sub(ctx, "withdraw", present, st1["sup"][tok][0] if present else None, s0, stated / li[tok])
        ctx.check("withdraw: wallet increases by exactly the stated amount", st1["wal"][tok] == st0["wal"][tok] + stated)
        ctx.check("withdraw: never more than the balance", stated <= s0 * li[tok] * (1 + REL))
        rest = st1["sup"][tok][0] * li[tok] if present else D(0)
        ctx.check("withdraw: action deposit_after equals scaled balance x index", ctx.close(act.deposit_after, rest, rel=REL))
        _frame(ctx, st0, st1, (tok,), (), (tok,), "withdraw")
    elif op == "borrow":
        ctx.check("borrow: scaled debt increases by exactly amount / borrow index", tok in st1["bor"] and ctx.close(st1["bor"][tok], b0 + stated / bi[tok], rel=REL))
        ctx.check("borrow: wallet increases by exactly the stated amount", st1["wal"][tok] == st0["wal"][tok] + stated)
        ctx.check("borrow: action debt_after equals scaled debt x index", ctx.close(act.debt_after, st1["bor"][tok] * bi[tok], rel=REL))
        _frame(ctx, st0, st1, (), (tok,), (tok,), "borrow")
    elif op == "repay":
        if a is None:
            ctx.check("repay(None): repays the whole debt", ctx.close(stated, b0 * bi[tok], rel=REL))
            ctx.check("repay(None): the debt entry disappears", tok not in st1["bor"])
        present = tok in st1["bor"]
        _scaled_after_sub(ctx, "repay", present, st1["bor"][tok] if present else None, b0, stated / bi[tok])
        _wallet_after(ctx, "repay: wallet decreases by exactly the stated amount", st1["wal"][tok], st0["wal"][tok], -stated)
        ctx.check("repay: never more than the debt (1e-18 scaled rounding)", stated / bi[tok] <= b0 + D("6e-19"))
        rest = st1["bor"][tok] * bi[tok] if present else D(0)
        ctx.check("repay: action debt_after equals scaled debt x index", ctx.close(act.debt_after, rest, rel=REL))
        _frame(ctx, st0, st1, (), (tok,), (tok,), "repay")
    elif op == "repay_coll":
        c0 = st0["sup"][tok2][0]
        want = a if a is not None else b0 * bi[tok]
        worth = c0 * li[tok2] * pr[tok2] / pr[tok]  # what the whole collateral position buys of the debt token
        ctx.check("repay with collateral: repays the request, or what the collateral is worth when that is less", ctx.close(stated, ite(want * pr[tok] / pr[tok2] > c0 * li[tok2], worth, want), rel=REL))
        presentb = tok in st1["bor"]
        _scaled_after_sub(ctx, "repay with collateral (debt)", presentb, st1["bor"][tok] if presentb else None, b0, stated / bi[tok])
        presents = tok2 in st1["sup"]
        _scaled_after_sub(ctx, "repay with collateral (collateral)", presents, st1["sup"][tok2][0] if presents else None, c0, stated * pr[tok] / pr[tok2] / li[tok2])
        ctx.check("repay with collateral: the wallet is untouched", sand(*[st1["wal"][n] == st0["wal"][n] for n in st0["wal"]]))
        if presents:
            ctx.check("repay with collateral: collateral flag kept", st1["sup"][tok2][1] == st0["sup"][tok2][1])
        if a is None:
            ctx.check("repay(None) with enough collateral: the debt entry disappears", sor(want * pr[tok] / pr[tok2] > c0 * li[tok2], not presentb))
        _frame(ctx, st0, st1, (tok2,), (tok,), (), "repay with collateral")
    # ---- a later bar: every reported balance is the scaled balance times the index of THAT bar
    li2 = {n: ctx.dec(f"li2_{n}", 1, 8) for n in w.names}
    bi2 = {n: ctx.dec(f"bi2_{n}", 1, 8) for n in w.names}
    for n in w.names:
        ctx.assume(sand(li2[n] >= li[n], bi2[n] >= bi[n]))
    w.set_row(li2, bi2, pr)
    st2 = w.raw()
    items = [("new bar: scaled balances, flags and wallet are not touched by a bar change", st2["sup"].keys() == st1["sup"].keys() and st2["bor"].keys() == st1["bor"].keys() and sand(*([st2["sup"][n][0] == st1["sup"][n][0] for n in st1["sup"]] + [st2["bor"][n] == st1["bor"][n] for n in st1["bor"]] + [st2["wal"][n] == st1["wal"][n] for n in st1["wal"]] + [True])))]
    for n in st1["sup"]:
        items.append(("later bar: get_supply().amount == scaled balance x liquidity index of that bar", ctx.close(w.market.get_supply(w.tok(n)).amount, st1["sup"][n][0] * li2[n], rel=REL)))
        items.append(("later bar: supplies view agrees", ctx.close(w.market.supplies[w.tok(n)].amount, st1["sup"][n][0] * li2[n], rel=REL)))
    for n in st1["bor"]:
        items.append(("later bar: get_borrow().amount == scaled debt x borrow index of that bar", ctx.close(w.market.get_borrow(w.tok(n)).amount, st1["bor"][n] * bi2[n], rel=REL)))
        items.append(("later bar: borrows view agrees", ctx.close(w.market.borrows[w.tok(n)].amount, st1["bor"][n] * bi2[n], rel=REL)))
    ctx.check_all(items)
    if st1["sup"] or st1["bor"]:
        n = next(iter(st1["sup"])) if st1["sup"] else None
        if n:
            ctx.check("CANARY balances ignore the index", ctx.close(w.market.get_supply(w.tok(n)).amount, st1["sup"][n][0] * li[n], rel=REL))
        else:
            n = next(iter(st1["bor"]))
            ctx.check("CANARY balances ignore the index", ctx.close(w.market.get_borrow(w.tok(n)).amount, st1["bor"][n] * bi[n], rel=REL))


def split_merge(ctx):
    """op(a1) ; op(a2)  versus  op(a1 + a2) from the same arbitrary portfolio, same bar: same state beyond 1e-18"""
    from ..models.aave import sym_portfolio

    p = ctx.p
    op, tok, tok2 = p["op"], p["tok"], p["tok2"]
    w = sym_portfolio(ctx, p["shape"])
    st0 = w.raw()
    w2 = AaveWorld(ctx, w.names)
    w2.set_row(w.row["li"], w.row["bi"], w.price)
    w2.install_state(st0["sup"], st0["bor"])
    for n in w.names:
        w2.broker.set_balance(w2.tok(n), st0["wal"][n])
    a1 = ctx.dec("a1", D("1e-6"), 10**9)
    a2 = ctx.dec("a2", D("1e-6"), 10**9)
    okm, _, _ = _op_call(ctx, w2, op, tok, tok2, "m_", amount=a1 + a2)
    ok1, _, _ = _op_call(ctx, w, op, tok, tok2, "s1_", amount=a1)
    ok2 = False
    if ok1:
        ok2, _, e2 = _op_call(ctx, w, op, tok, tok2, "s2_", amount=a2)
    ctx.outcome(f"merged={'ok' if okm else 'rej'} split={'ok' if ok1 and ok2 else 'rej'}")
    if okm and op in ("withdraw", "borrow", "repay"):
        # what is accepted in one piece is accepted in two, unless the first piece leaves only clamp-size dust
        if op == "withdraw":
            left = st0["sup"][tok][0] - a1 / w.row["li"][tok]
        elif op == "repay":
            left = st0["bor"][tok] - a1 / w.row["bi"][tok]
        else:
            left = None
        # (a repayment that the wallet covers only thanks to its own 1e-5 snap is the wallet's business, not Aave's)
        snapped = sor(a1 + a2 > st0["wal"][tok], st0["wal"][tok] - a1 < D("1.0001e-5") * st0["wal"][tok]) if op == "repay" else False
        ctx.check(f"{op}: what is accepted merged is accepted split", sor(ok1 and ok2, (left <= CL * 2) if left is not None else False, snapped))
    if not (okm and ok1 and ok2):
        return
    sa, sb = w.raw(), w2.raw()
    items = [("split vs merged: same set of positions (beyond 1e-18 dust)", True)]
    idx = w.row
    for part, key_idx in (("sup", "li"), ("bor", "bi")):
        for n in set(sa[part]) | set(sb[part]):
            va = (sa[part][n][0] if part == "sup" else sa[part][n]) if n in sa[part] else D(0)
            vb = (sb[part][n][0] if part == "sup" else sb[part][n]) if n in sb[part] else D(0)
            items.append((f"split vs merged: scaled {'supply' if part == 'sup' else 'debt'} agrees within 1e-18", ctx.close(va, vb, rel=REL, abs_=CL * 2)))
    for n in sa["wal"]:
        # the wallet's own 1e-5 snap (Asset.sub) may fire in one variant only
        exact = ctx.close(sa["wal"][n], sb["wal"][n], rel=REL)
        snap = sor(sand(sa["wal"][n] == 0, sb["wal"][n] <= D("1.0001e-5") * st0["wal"][n]), sand(sb["wal"][n] == 0, sa["wal"][n] <= D("1.0001e-5") * st0["wal"][n]))
        items.append(("split vs merged: wallet agrees (up to the wallet's 1e-5 snap)", sor(exact, snap)))
    ctx.check_all(items)
    ctx.check("CANARY split changes the state", ctx.close(sa["wal"][tok], st0["wal"][tok], rel=REL))



def _borrowable(shape, tok):
    """can a borrow of `tok` be accepted at all on this shape (collateral with a non-zero LTV present, token borrowable)?"""
    from ..models.aave import risk_table

    risk = risk_table()
    return risk[tok]["borrow"] and any(md == "C" and risk[n]["coll"] and risk[n]["ltv"] > 0 for n, (md, _) in shape.items())


def scenarios(tier):
    e = ("AaveV3Market.supply", "withdraw", "borrow", "repay", "set_market_status", "get_supply", "get_borrow")
    out = []
    for tag, prm in (("", {}), ("/6dec", dict(supply_token="USDC", borrow_token="USDT"))):
        out += [
            Scenario("supply_accrual" + tag, supply_accrual, params=prm, shadows=SHADOWS, entry=e, canary="CANARY accrual ignores index", expect_outcomes=("accepted",)),
            Scenario("withdraw_moves" + tag, withdraw_moves, params=prm, shadows=SHADOWS, entry=e, canary="CANARY withdraw leaves position", expect_outcomes=("accepted", "rejected")),
            Scenario("borrow_accrual" + tag, borrow_accrual, params=prm, shadows=SHADOWS, entry=e, canary="CANARY debt ignores index", expect_outcomes=("accepted",)),
            Scenario("repay_moves" + tag, repay_moves, params=prm, shadows=SHADOWS, entry=e, canary="CANARY repay leaves debt", expect_outcomes=("accepted", "rejected")),
        ]
    from ..models.aave import SHAPES_QUICK, SHAPES_THOROUGH
    from ..models.aave_ops import op_targets

    shapes = {k: SHAPES_QUICK[k] for k in ("A", "B", "C")} if tier == "quick" else SHAPES_THOROUGH
    for sn, shape in shapes.items():
        for op in ("supply", "withdraw", "borrow", "repay", "repay_coll"):
            for tok, tok2 in op_targets(shape, op):
                if op == "repay_coll" and not (shape[tok][1] and shape[tok2][0]):
                    continue  # needs a debt and a supply to be more than a rejection
                if op in ("withdraw",) and not shape[tok][0]:
                    continue
                if op in ("repay",) and not shape[tok][1]:
                    continue
                nm = f"{sn}/{op}/{tok}{'/' + tok2 if tok2 else ''}"
                out.append(Scenario("step/" + nm, one_step, params=dict(shape=shape, op=op, tok=tok, tok2=tok2), shadows=SHADOWS, entry=e, max_paths=600, witness_cap=8, canary=None if ((op == "repay_coll" and shape[tok2][0] != "C") or (op == "borrow" and not _borrowable(shape, tok))) else "CANARY balances ignore the index"))
                if tier != "quick" or sn in ("A", "B"):
                    out.append(Scenario("split/" + nm, split_merge, params=dict(shape=shape, op=op, tok=tok, tok2=tok2), shadows=SHADOWS, entry=e, max_paths=600, witness_cap=8))
    for op, tok, tok2 in (("withdraw", "WETH", None), ("repay", "DAI", None), ("repay_coll", "DAI", "WETH")):
        out.append(Scenario(f"step/A/{op}/{tok}{'/' + tok2 if tok2 else ''}/another_aave_market_in_the_process", one_step, params=dict(shape=SHAPES_QUICK["A"], op=op, tok=tok, tok2=tok2, neighbour_market=True), shadows=SHADOWS, entry=e, max_paths=600, witness_cap=8))
    return out
