"""C10 -- Aave balances accrue exactly with the indices; operations move the stated amounts."""
from decimal import Decimal

from ..harness import Scenario
from ..models.aave import AaveWorld, SHADOWS
from ..symx import ite, smax, sabs, sand, sor

D = Decimal
META = {
    "level": "model_checking",
    "level_text": "Bounded symbolic model checking of the real AaveV3Market: supply/withdraw/borrow/repay sequences with all amounts, "
    "indices and prices symbolic; z3 proves on every feasible path that balances equal amount x index ratio and that wallet, "
    "position and action record move by exactly the stated amounts. Holds for every value inside the bounds, not beyond the "
    "sequence lengths listed.",
    "bounds": [
        "sequences of <= 3 user operations with <= 3 bar changes between them, <= 2 tokens",
        "amounts in (0, 1e12], indices in [1, 10] non-decreasing, prices in (0, 1e7]",
    ],
    "outside": ["longer operation sequences (covered inductively only for the accrual identity)", "Decimal rounding below 1e-30 relative"],
    "assumptions": ["Decimal arithmetic modelled as exact reals; equalities proved with slack 1e-25 relative (DESIGN 6.1)"],
}
REL = D("1e-25")
DUST18 = D("2e-18")
HUGE = D(10) ** 12


DECIMALS = {"USDC": 6, "USDT": 6}


def _S(ctx):
    """token supplied in the scenario (18 decimals by default; the 6-decimal variants exercise decimal-dependent code)"""
    return ctx.p.get("supply_token", "WETH")


def _B(ctx):
    """token borrowed / second token"""
    return ctx.p.get("borrow_token", "DAI")


def _idx(ctx, name, lo=1):
    return ctx.dec(name, lo, 10)


def _wallet_after(ctx, name, after, before, delta):
    """wallet moved by exactly delta, up to the wallet's own dust snap (1e-5 of the balance)"""
    exact = after == before + delta
    snap = sand(after == 0, sabs(before + delta) <= D("1.0001e-5") * before)
    return ctx.check(name, sor(exact, snap))


def supply_accrual(ctx):
    """supply a1 @li0 ; bar ; supply a2 @li1 ; bar @li2 -> amount == a1*li2/li0 + a2*li2/li1"""
    w = AaveWorld(ctx, [_S(ctx), _B(ctx)], decimals=DECIMALS)
    t = w.tok(_S(ctx))
    a1 = ctx.dec("a1", 0, HUGE, lo_open=True)
    a2 = ctx.dec("a2", 0, HUGE, lo_open=True)
    w0 = ctx.dec("wallet0", 0, HUGE * 4)
    li0 = _idx(ctx, "li0")
    li1 = _idx(ctx, "li1")
    li2 = _idx(ctx, "li2")
    ctx.assume(sand(li0 <= li1, li1 <= li2))
    p = ctx.dec("p_weth", 0, 10**7, lo_open=True)
    coll = ctx.flag("collateral")
    other = ctx.flag("other_token_op_between")
    one, pr = {_S(ctx): D(1), _B(ctx): D(1)}, {_S(ctx): p, _B(ctx): D(1)}
    w.broker.set_balance(t, w0)
    w.broker.set_balance(w.tok(_B(ctx)), D(1000))
    w.set_row({_S(ctx): li0, _B(ctx): D(1)}, one, pr)
    try:
        w.market.supply(t, a1, coll)
    except AssertionError:
        ctx.outcome("rejected-1")
        ctx.check("supply within wallet balance is accepted", a1 > w0)
        return
    _wallet_after(ctx, "supply: wallet decreases by exactly the stated amount", w.broker.get_token_balance(t), w0, -a1)
    ctx.check("supply: position amount equals stated amount", ctx.close(w.market.get_supply(t).amount, a1, rel=REL))
    act = w.actions[-1]
    ctx.check("supply: action records the stated amount", act.amount == a1)
    ctx.check("supply: action deposit_after equals position", ctx.close(act.deposit_after, a1, rel=REL))
    w.set_row({_S(ctx): li1, _B(ctx): D(1)}, one, pr)
    ctx.check("accrual after one bar: amount == a1*li1/li0", ctx.close(w.market.get_supply(t).amount, a1 * li1 / li0, rel=REL))
    if other:
        w.market.supply(w.tok(_B(ctx)), D(10), True)
    wal1 = w.broker.get_token_balance(t)
    try:
        w.market.supply(t, a2, coll)
    except AssertionError:
        ctx.outcome("rejected-2")
        ctx.check("second supply within wallet balance is accepted", a2 > wal1)
        return
    _wallet_after(ctx, "second supply: wallet decreases by exactly the stated amount", w.broker.get_token_balance(t), wal1, -a2)
    w.set_row({_S(ctx): li2, _B(ctx): D("1.5")}, one, pr)
    if other:
        w.market.withdraw(w.tok(_B(ctx)), D(5))
    exp = a1 * li2 / li0 + a2 * li2 / li1
    got = w.market.get_supply(t).amount
    ctx.observe("supply_amount", got)
    ctx.outcome("accepted")
    ctx.check("accrual: amount == a1*li2/li0 + a2*li2/li1", ctx.close(got, exp, rel=REL))
    ctx.check("CANARY accrual ignores index", ctx.close(got, a1 + a2, rel=REL))
    ctx.check("supplies view agrees", ctx.close(w.market.supplies[t].amount, exp, rel=REL))


def withdraw_moves(ctx):
    """supply a @li0 ; bar @li1 ; withdraw x -> wallet += x, position -= x ; full withdrawal removes the entry"""
    w = AaveWorld(ctx, [_S(ctx), _B(ctx)], decimals=DECIMALS)
    t = w.tok(_S(ctx))
    a = ctx.dec("a", D("1e-6"), HUGE)
    li0 = _idx(ctx, "li0")
    li1 = _idx(ctx, "li1")
    ctx.assume(li0 <= li1)
    p = ctx.dec("p_weth", 0, 10**7, lo_open=True)
    mode = ctx.choose("mode", 3)  # 0: explicit amount, 1: amount=None (everything), 2: explicit amount equal to the balance
    one, pr = {_S(ctx): D(1), _B(ctx): D(1)}, {_S(ctx): p, _B(ctx): D(1)}
    w.broker.set_balance(t, a * 2 + 1)
    w.set_row({_S(ctx): li0, _B(ctx): D(1)}, one, pr)
    w.market.supply(t, a, ctx.flag("collateral"))
    w.set_row({_S(ctx): li1, _B(ctx): D(1)}, one, pr)
    wal0 = w.broker.get_token_balance(t)
    held = a * li1 / li0
    if mode == 0:
        x = ctx.dec("x", 0, HUGE * 20)
    elif mode == 1:
        x = None
    else:
        x = w.market.get_supply(t).amount
    n_act = len(w.actions)
    try:
        w.market.withdraw(t, x)
    except AssertionError as e:
        ctx.outcome("rejected")
        xx = x if x is not None else held
        ctx.check("withdraw of a positive amount within the supplied balance (no debt) is accepted", sor(xx <= 0, xx > held * (1 - REL)))
        ctx.check("a rejected withdraw leaves position and wallet where they were", sand(t in w.market._supplies and ctx.close(w.market.get_supply(t).amount, held, rel=REL), w.broker.get_token_balance(t) == wal0, len(w.actions) == n_act))
        return
    ctx.outcome("accepted")
    xx = x if x is not None else held
    ctx.check("withdraw: amount within held", xx <= held * (1 + REL))
    ctx.check("withdraw: wallet increases by exactly the stated amount", ctx.close(w.broker.get_token_balance(t), wal0 + xx, rel=REL))
    present = t in w.market._supplies
    rest = w.market.get_supply(t).amount if present else D(0)
    ctx.observe("rest", rest)
    ctx.check("withdraw: position decreases by the stated amount (1e-18 dust)", ctx.close(rest, held - xx, rel=REL, abs_=DUST18 * 10))
    ctx.check("withdraw: one action recorded", len(w.actions) == n_act + 1)
    ctx.check("withdraw: action records the stated amount", ctx.close(w.actions[-1].amount, xx, rel=REL))
    ctx.check("withdraw: action deposit_after equals position", ctx.close(w.actions[-1].deposit_after, rest, rel=REL, abs_=DUST18 * 10))
    if mode != 0:
        ctx.check("full withdrawal removes the supply entry", not present)
    ctx.check("CANARY withdraw leaves position", ctx.close(rest, held, rel=REL))


def borrow_accrual(ctx):
    """collateral ; borrow b1 @bi0 ; bar ; borrow b2 @bi1 ; bar @bi2 -> debt == b1*bi2/bi0 + b2*bi2/bi1"""
    w = AaveWorld(ctx, [_S(ctx), _B(ctx)], decimals=DECIMALS)
    tc, td = w.tok(_S(ctx)), w.tok(_B(ctx))
    b1 = ctx.dec("b1", D("1e-6"), 10**9)
    b2 = ctx.dec("b2", D("1e-6"), 10**9)
    bi0 = _idx(ctx, "bi0")
    bi1 = _idx(ctx, "bi1")
    bi2 = _idx(ctx, "bi2")
    ctx.assume(sand(bi0 <= bi1, bi1 <= bi2))
    wd0 = ctx.dec("wallet_dai0", 0, 10**9)
    one = {_S(ctx): D(1), _B(ctx): D(1)}
    pr = {_S(ctx): D(10) ** 7, _B(ctx): D(1)}
    w.broker.set_balance(tc, D(10) ** 9)
    w.broker.set_balance(td, wd0)
    w.set_row(one, {_S(ctx): D(1), _B(ctx): bi0}, pr)
    w.market.supply(tc, D(10) ** 8, True)  # 1e15 USD of collateral: every borrow below is within limits
    w.market.borrow(td, b1)
    ctx.check("borrow: wallet increases by exactly the stated amount", w.broker.get_token_balance(td) == wd0 + b1)
    ctx.check("borrow: debt equals the stated amount", ctx.close(w.market.get_borrow(td).amount, b1, rel=REL))
    ctx.check("borrow: action records the stated amount", w.actions[-1].amount == b1)
    ctx.check("borrow: action debt_after equals debt", ctx.close(w.actions[-1].debt_after, b1, rel=REL))
    w.set_row(one, {_S(ctx): D(1), _B(ctx): bi1}, pr)
    ctx.check("debt accrual after one bar: debt == b1*bi1/bi0", ctx.close(w.market.get_borrow(td).amount, b1 * bi1 / bi0, rel=REL))
    w.market.borrow(td, b2)
    w.set_row(one, {_S(ctx): D(1), _B(ctx): bi2}, pr)
    exp = b1 * bi2 / bi0 + b2 * bi2 / bi1
    got = w.market.get_borrow(td).amount
    ctx.observe("debt", got)
    ctx.outcome("accepted")
    ctx.check("accrual: debt == b1*bi2/bi0 + b2*bi2/bi1", ctx.close(got, exp, rel=REL))
    ctx.check("borrows view agrees", ctx.close(w.market.borrows[td].amount, exp, rel=REL))
    ctx.check("CANARY debt ignores index", ctx.close(got, b1 + b2, rel=REL))
    ctx.check("wallet holds both borrowed amounts", w.broker.get_token_balance(td) == wd0 + b1 + b2)


def repay_moves(ctx):
    """debt b @bi0 ; bar @bi1 ; repay y (cash / with collateral) -> exact movements ; full repay removes the entry"""
    w = AaveWorld(ctx, [_S(ctx), _B(ctx)], decimals=DECIMALS)
    tc, td = w.tok(_S(ctx)), w.tok(_B(ctx))
    b = ctx.dec("b", D("1e-6"), 10**9)
    bi0 = _idx(ctx, "bi0")
    bi1 = _idx(ctx, "bi1")
    ctx.assume(bi0 <= bi1)
    li1 = _idx(ctx, "li_weth1")
    pw = ctx.dec("p_weth", 1, 10**7)
    mode = ctx.choose("mode", 4)  # 0 cash amount, 1 cash None(all), 2 with collateral amount, 3 with collateral None
    one = {_S(ctx): D(1), _B(ctx): D(1)}
    w.broker.set_balance(tc, D(10) ** 9)
    w.broker.set_balance(td, D(0))
    w.set_row(one, {_S(ctx): D(1), _B(ctx): bi0}, {_S(ctx): D(10) ** 7, _B(ctx): D(1)})
    w.market.supply(tc, D(10) ** 8, True)
    w.market.borrow(td, b)
    wd = ctx.dec("wallet_dai", 0, 10**10)
    w.broker.set_balance(td, wd)
    w.set_row({_S(ctx): li1, _B(ctx): D(1)}, {_S(ctx): D(1), _B(ctx): bi1}, {_S(ctx): pw, _B(ctx): D(1)})
    debt = b * bi1 / bi0
    coll_before = w.market.get_supply(tc).amount
    y = ctx.dec("y", 0, 10**11) if mode in (0, 2) else None
    n_act = len(w.actions)
    try:
        if mode < 2:
            w.market.repay(td, y)
        else:
            w.market.repay(td, y, repay_with_collateral=True, repay_collateral_token=tc)
    except AssertionError as e:
        ctx.outcome("rejected")
        yy = y if y is not None else debt
        if mode < 2:
            ctx.check("repay of a positive amount within debt and wallet is accepted", sor(yy <= 0, yy > debt * (1 - REL), yy > wd * (1 - D("1e-4"))))
        else:
            ctx.check("repay-with-collateral of a positive amount within debt is accepted", sor(yy <= 0, yy > debt * (1 - REL)))
        ctx.check("a rejected repay leaves the debt where it was", td in w.market._borrows and ctx.close(w.market.get_borrow(td).amount, debt, rel=REL))
        ctx.check("a rejected repay leaves wallet and collateral where they were", sand(w.broker.get_token_balance(td) == wd, ctx.close(w.market.get_supply(tc).amount, coll_before, rel=REL)))
        ctx.check("a rejected repay records no action", len(w.actions) == n_act)
        return
    ctx.outcome("accepted")
    yy = y if y is not None else debt
    if mode >= 2:
        # contract semantics kept by the code: the repayment is capped by the collateral's worth
        yy = ite(yy * 1 / pw > coll_before, coll_before * pw, yy)
    ctx.check("repay: amount within debt (1e-18 rounding)", yy <= debt + DUST18 * 10)
    present = td in w.market._borrows
    rest = w.market.get_borrow(td).amount if present else D(0)
    ctx.observe("rest", rest)
    ctx.check("repay: debt decreases by the stated amount (1e-18 dust)", ctx.close(rest, smax(debt - yy, 0), rel=REL, abs_=DUST18 * 10))
    if mode < 2:
        _wallet_after(ctx, "repay: wallet decreases by exactly the stated amount", w.broker.get_token_balance(td), wd, -yy)
        ctx.check("repay: collateral untouched", ctx.close(w.market.get_supply(tc).amount, coll_before, rel=REL))
    else:
        ctx.check("repay with collateral: wallet untouched", w.broker.get_token_balance(td) == wd)
        crest = w.market.get_supply(tc).amount if tc in w.market._supplies else D(0)
        ctx.check("repay with collateral: collateral decreases by the repaid value", ctx.close(crest, coll_before - yy / pw, rel=REL, abs_=DUST18 * 10))
    ctx.check("repay: one action recorded", len(w.actions) == n_act + 1)
    ctx.check("repay: action records the repaid amount", ctx.close(w.actions[-1].amount, yy, rel=REL))
    ctx.check("repay: action debt_after equals debt", ctx.close(w.actions[-1].debt_after, rest, rel=REL, abs_=DUST18 * 10))
    if mode == 1:
        ctx.check("full repayment removes the debt entry", not present)
    ctx.check("CANARY repay leaves debt", ctx.close(rest, debt, rel=REL))


def scenarios(tier):
    e = ("AaveV3Market.supply", "withdraw", "borrow", "repay", "set_market_status", "get_supply", "get_borrow")
    out = []
    for tag, prm in (("", {}), ("/6dec", dict(supply_token="USDC", borrow_token="USDT"))):
        out += [
            Scenario("supply_accrual" + tag, supply_accrual, params=prm, shadows=SHADOWS, entry=e, canary="CANARY accrual ignores index", expect_outcomes=("accepted",)),
            Scenario("withdraw_moves" + tag, withdraw_moves, params=prm, shadows=SHADOWS, entry=e, canary="CANARY withdraw leaves position", expect_outcomes=("accepted", "rejected")),
            Scenario("borrow_accrual" + tag, borrow_accrual, params=prm, shadows=SHADOWS, entry=e, canary="CANARY debt ignores index", expect_outcomes=("accepted",)),
            Scenario("repay_moves" + tag, repay_moves, params=prm, shadows=SHADOWS, entry=e, canary="CANARY repay leaves debt", expect_outcomes=("accepted", "rejected")),
        ]
    return out
