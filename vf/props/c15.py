"""C15 -- option orders fill best-first at displayed sizes; cash, fee, position exact."""
from decimal import Decimal

import pandas as pd

from ..harness import Scenario
from ..models.deribit import NOW, DeribitWorld, SHADOWS, sym_book, FEE_STEP, _dec, _flt
from ..symx import ite, sand, sor, snot, smin, smax, sabs, is_sym

D = Decimal
META = {
    "level": "model_checking",
    "level_text": "Bounded symbolic model checking of the real DeribitOptionMarket.buy / sell / get_market_balance on a real order-book row whose level "
    "sizes, the cash balance, the held amount, the order size (and the mark-price cap) are symbolic: on every feasible path z3 proves "
    "best-first filling, fills <= displayed size, total fill == requested contracts, cost == sum price x size, the fee rule "
    "min(0.03% x contracts, 12.5% x premium) rounded to the fee step, limit orders touching only their level, caps excluding worse "
    "levels, the visible book shrinking by exactly the fills (seen by a second order in the same bar), exact cash / position / "
    "size-weighted average price updates, equity == cash + positions at mark, and that contracts not held cannot be sold.",
    "bounds": ["<= 3 book levels per side (quick) / 4 (thorough) with concrete ascending/descending prices around the mark, symbolic integer sizes in [0, 2000]", "<= 2 orders in sequence; order size in [1, 5000] contracts; cash in [0, 1000]; ETH and BTC configurations"],
    "outside": ["symbolic level prices (concrete grid)", "more than 4 levels / 2 orders", "float rounding of level sizes (sizes are integers as in the ETH data)"],
    "assumptions": ["float order sizes and Decimal amounts modelled as reals; quantize/round modelled exactly"],
}
REL = D("1e-25")


def _fills_by_price(order_list):
    out = {}
    for o in order_list:
        out[D(str(o.price))] = out.get(D(str(o.price)), 0) + o.amount
    return out


def order(ctx):
    p = ctx.p
    side, mode, nl = p["side"], p["mode"], p["levels"]
    name = "ETH-22SEP23-1650-C"
    # book shapes: the repo's test book (levels 1.7 % apart around 0.0287), a tight book (levels 0.035 % apart: closer than the
    # 0.1 % order-lookup tolerance) and a cheap option whose levels straddle the price 0.0024 where the fee rule's minimum flips
    mark, step = {"normal": (0.0287, 0.0005), "tight": (0.0287, 0.00001), "cheap": (0.0020 if side == "buy" else 0.0028, 0.0005)}[p.get("book", "normal")]
    ins = sym_book(ctx, name, nl if side == "buy" else 2, nl if side == "sell" else 2, mark=mark, step=step)
    cash = ctx.dec("cash", 0, 1000)
    w = DeribitWorld(ctx, [ins], cash=cash, token=p.get("token", "eth"))
    m = w.market
    hold = None
    if p["hold"]:
        hold = _dec(ctx.int_("held", 1, 5000))
        # part of what was bought earlier may have been sold again: bought amount != remaining amount
        w.hold(name, hold, sold=_dec(ctx.int_("sold_earlier", 0, 5000)) if p.get("sold_before") else None)
    n_orders = p.get("orders", 1)
    side_key = "asks" if side == "buy" else "bids"
    book0 = w.book(name, side_key)
    other0 = w.book(name, "bids" if side == "buy" else "asks")
    filled_total = {D(str(px)): 0 for px, _ in book0}
    cash_now = cash
    held_now = hold if hold is not None else D(0)
    for k in range(n_orders):
        if k == 1 and p.get("new_hour"):
            # the next hourly bar brings a fresh book (other sizes): the second order sees THAT book, not what the first one left of
            # the old one; cash and holding carry over
            ins2 = sym_book(ctx, name, nl if side == "buy" else 2, nl if side == "sell" else 2, mark=mark, step=step, prefix="h2_")
            w.set_row([ins2], NOW + pd.Timedelta("1h"))
            book0 = w.book(name, side_key)
            other0 = w.book(name, "bids" if side == "buy" else "asks")
            filled_total = {D(str(px)): 0 for px, _ in book0}
            ctx.check(f"{side}[{mode}]: a new hourly bar leaves cash and holding where they were", sand(m.balance == cash_now, (m.positions[name].amount == held_now) if name in m.positions else held_now == 0))
        n = _dec(ctx.int_(f"n{k}", 1, 5000))
        kw = {}
        book = w.book(name, side_key)
        if mode == "limit":
            lvl = p["limit_level"]
            kw["price_in_token"] = D(str(book0[lvl][0]))
        elif mode == "usd":
            lvl = p["limit_level"]
            kw["price_in_usd"] = D(str(book0[lvl][0])) * D(str(ins["underlying"]))
        elif mode == "cap":
            cap = ctx.dec("cap_multiple", D("1.0"), D("1.1"))
            kw["max_mark_price_multiple"] = cap
        st0 = w.raw()
        try:
            lst, fee = (m.buy if side == "buy" else m.sell)(name, n, **kw)
        except Exception as e:
            ctx.outcome(f"rejected:{type(e).__name__}")
            if type(e).__name__ not in ("DemeterError", "InsufficientBalanceError", "AssertionError"):
                ctx.check(f"{side}[{mode}]: only documented rejections are raised (got {type(e).__name__})", False)
                return
            # completeness: an order that fits the eligible book (and cash / holding) is accepted
            elig = _eligible(book, side, mode, p, kw, mark)
            avail = sum((s for _, s in elig), 0)
            fits = n <= avail
            if side == "sell":
                fits = sand(fits, n <= held_now) if p["hold"] else False
            else:
                worst = max([D(str(px)) for px, _ in elig], default=D(0))
                fits = sand(fits, cash_now >= n * worst + D("0.0003") * n + FEE_STEP)
            ctx.check(f"{side}[{mode}]: an order that fits the eligible book and the account is accepted", snot(fits))
            return
        ctx.outcome("accepted")
        fills = _fills_by_price(lst)
        elig = _eligible(book, side, mode, p, kw, mark)
        elig_prices = [D(str(px)) for px, _ in elig]
        items = []
        items.append((f"{side}[{mode}]: total fill == requested contracts", sum(fills.values(), D(0)) == n))
        for px in fills:
            items.append((f"{side}[{mode}]: fills only at eligible levels", px in elig_prices))
        prev_full = True
        cost = D(0)
        for px, size in elig:  # best first
            f = fills.get(D(str(px)), D(0))
            items.append((f"{side}[{mode}]: fill at a level <= its displayed size", f <= _dec(size)))
            items.append((f"{side}[{mode}]: fill at a level is non-negative", f >= 0))
            if mode in ("market", "cap"):
                items.append((f"{side}[{mode}]: levels are consumed best-first", sor(f == 0, prev_full)))
                prev_full = sand(prev_full, f == _dec(size))
            cost = cost + D(str(px)) * f
            filled_total[D(str(px))] = filled_total[D(str(px))] + f
        if side == "sell" and p["hold"]:
            items.append((f"sell[{mode}]: contracts that are not held cannot be sold", n <= held_now))
        if side == "sell" and not p["hold"]:
            items.append((f"sell[{mode}]: contracts that are not held cannot be sold", False))
        raw_fee = smin(D("0.0003") * n, D("0.125") * cost)
        items.append((f"{side}[{mode}]: fee == min(0.03% x contracts, 12.5% x premium) rounded to the fee step", sabs(fee - raw_fee) <= FEE_STEP / 2))
        items.append((f"{side}[{mode}]: fee is a multiple of the fee step", _is_multiple(fee, FEE_STEP)))
        cash_exp = cash_now - cost - fee if side == "buy" else cash_now + cost - fee
        items.append((f"{side}[{mode}]: cash changes by exactly premium and fee", ctx.close(m.balance, cash_exp, rel=REL)))
        items.append((f"{side}[{mode}]: cash stays non-negative", m.balance >= 0))
        # book after = old book - fills ; other side untouched
        after = w.book(name, side_key)
        for (px, size), (px2, size2) in zip(book, after):
            items.append((f"{side}[{mode}]: visible book shrinks by exactly the fills", sand(px == px2, _dec(size2) == _dec(size) - fills.get(D(str(px)), D(0)))))
        items.append((f"{side}[{mode}]: the other side of the book is untouched", all(a[0] == b[0] and (a[1] is b[1] or not is_sym(a[1] == b[1]) and a[1] == b[1]) for a, b in zip(other0, w.book(name, "bids" if side == "buy" else "asks")))))
        # position
        pos = m.positions.get(name)
        old = st0["pos"].get(name)
        if side == "buy":
            items.append((f"buy[{mode}]: position grows by the bought contracts", pos is not None and pos.amount == held_now + n))
            if pos is not None:
                old_buy, old_avg = (old[2], old[1]) if old else (D(0), D(0))
                items.append((f"buy[{mode}]: average buy price is size-weighted", ctx.close(pos.avg_buy_price * (old_buy + n), old_avg * old_buy + cost, rel=REL)))
                items.append((f"buy[{mode}]: bought amount accumulates", pos.buy_amount == old_buy + n))
            held_now = held_now + n
        else:
            rest = held_now - n
            if pos is None:
                items.append((f"sell[{mode}]: position disappears only when everything is sold", rest <= 0))
            else:
                items.append((f"sell[{mode}]: position shrinks by the sold contracts", pos.amount == rest))
                old_sell, old_avg = (old[4], old[3]) if old else (D(0), D(0))
                items.append((f"sell[{mode}]: average sell price is size-weighted", ctx.close(pos.avg_sell_price * (old_sell + n), old_avg * old_sell + cost, rel=REL)))
            held_now = rest
        act = w.actions[-1]
        items.append((f"{side}[{mode}]: action records amount, premium and fee", sand(act.amount == n, ctx.close(act.total_premium, cost, rel=REL), act.fee == fee)))
        cash_now = m.balance
        ctx.check_all(items)
    # across both orders no level gave more than it displayed at the start of the bar
    for (px, size) in book0:
        ctx.check(f"{side}[{mode}]: over all orders of the bar a level never fills more than it displayed", filled_total[D(str(px))] <= _dec(size))
    bal = m.get_market_balance()
    mark_r = D(str(mark)).quantize(FEE_STEP)
    pos = m.positions.get(name)
    eq = m.balance + (pos.amount * mark_r if pos is not None else 0)
    ctx.check(f"equity == cash + positions at mark", ctx.close(bal.net_value, eq, rel=REL))
    ctx.check("CANARY orders are free", m.balance == cash)


def refresh(ctx):
    """the market is driven from its history frame (market.data), as under the Actuator: fills shrink the VISIBLE book only until the
    book is next refreshed -- a reload of the same bar (the Actuator reloads a market that traded), and the next hourly bar, show the
    history's book again, and the history frame itself is never written to"""
    from demeter import Broker, MarketInfo, MarketTypeEnum
    from demeter.deribit import DeribitOptionMarket, DeribitMarketStatus
    from ..models.deribit import EXPIRY

    p = ctx.p
    side = p["side"]
    name = "ETH-22SEP23-1650-C"
    mark = 0.0287
    books = [sym_book(ctx, name, 2, 2, mark=mark), sym_book(ctx, name, 2, 2, mark=mark, prefix="h2_")]
    times = [NOW, NOW + pd.Timedelta("1h")]
    rows, idx = [], []
    for t, b in zip(times, books):
        idx.append((t, name))
        rows.append(dict(state="open", type="CALL", strike_price=1650, expiry_time=EXPIRY, vega=0.0, theta=0.0, rho=0.0, gamma=0.003, delta=0.5, underlying_price=1651.94, settlement_price=None,
                         mark_price=mark, mark_iv=30.0, last_price=None, interest_rate=0, bid_iv=0.0, best_bid_price=0.0, best_bid_amount=0.0, ask_iv=0.0, best_ask_price=0.0, best_ask_amount=0.0,
                         asks=[[px, sz] for px, sz in b["asks"]], bids=[[px, sz] for px, sz in b["bids"]]))
    df = pd.DataFrame(rows, index=pd.MultiIndex.from_tuples(idx, names=["time", "instrument_name"])).astype(object)
    actions = []
    m = DeribitOptionMarket(MarketInfo("deribit", MarketTypeEnum.deribit_option), DeribitOptionMarket.ETH, data=df)
    br = Broker(record_action_callback=actions.append)
    br.add_market(m)
    br.set_balance(DeribitOptionMarket.ETH, D(0))
    m.balance = ctx.dec("cash", 0, 1000)
    price = pd.Series([1651.94], index=["ETH"], dtype=object)
    side_key = "asks" if side == "buy" else "bids"

    def load(t):
        m.set_market_status(DeribitMarketStatus(timestamp=t, data=None), price=price)

    def visible():
        return [(l[0], l[1]) for l in m.market_status.data.loc[name][side_key]]

    def history(t):
        return [(l[0], l[1]) for l in df.loc[(t, name), side_key]]

    load(times[0])
    if side == "sell":
        from demeter.deribit import OptionPosition, OptionKind

        held = _dec(ctx.int_("held", 1, 5000))
        m.positions[name] = OptionPosition(name, EXPIRY, 1650, OptionKind("CALL"), held, D("0.03"), held, D(0), D(0))
    orig = [(px, sz) for px, sz in books[0][side_key]]
    n0 = _dec(ctx.int_("n0", 1, 5000))
    try:
        lst, fee = (m.buy if side == "buy" else m.sell)(name, n0)
    except Exception as e:
        ctx.outcome(f"rejected:{type(e).__name__}")
        return
    ctx.outcome("accepted")
    fills = _fills_by_price(lst)
    shrunk = visible()
    ctx.check(f"{side}: the visible book shrinks by exactly the fills", sand(*[sand(a[0] == b[0], _dec(a[1]) == _dec(b[1]) - fills.get(D(str(b[0])), D(0))) for a, b in zip(shrunk, orig)]))
    ctx.check(f"{side}: the history frame is not written to by a fill", sand(*[sand(a[0] == b[0], a[1] == b[1]) for a, b in zip(history(times[0]), orig)]))
    load(times[0])  # the Actuator reloads a market that traded in the bar
    ctx.check(f"{side}: after a refresh of the same bar the visible book is the history's book again", sand(*[sand(a[0] == b[0], a[1] == b[1]) for a, b in zip(visible(), orig)]))
    n1 = _dec(ctx.int_("n1", 1, 5000))
    cash1 = m.balance
    try:
        lst1, fee1 = (m.buy if side == "buy" else m.sell)(name, n1)
        ok1 = True
    except Exception as e:
        ok1 = False
    if ok1:
        f1 = _fills_by_price(lst1)
        ctx.check(f"{side}: an order after the refresh fills best-first from the refreshed book", sand(*[f1.get(D(str(px)), D(0)) <= _dec(sz) for px, sz in orig]) & (sum(f1.values(), D(0)) == n1))
        best_px, best_sz = orig[0]
        ctx.check(f"{side}: an order after the refresh takes the refreshed best level first", f1.get(D(str(best_px)), D(0)) == smin(n1, _dec(best_sz)))
    load(times[1])
    nxt = [(px, sz) for px, sz in books[1][side_key]]
    ctx.check(f"{side}: the next hourly bar shows that bar's book", sand(*[sand(a[0] == b[0], a[1] == b[1]) for a, b in zip(visible(), nxt)]))
    ctx.check(f"{side}: the history frame is intact after both bars", sand(*[sand(a[0] == b[0], a[1] == b[1]) for t, o in ((times[0], orig), (times[1], nxt)) for a, b in zip(history(t), o)]))
    ctx.check("CANARY fills never shrink the visible book", sand(*[_dec(a[1]) == _dec(b[1]) for a, b in zip(shrunk, orig)]))



def _is_multiple(x, step):
    from .. import symx
    import z3

    if isinstance(x, symx.Sym):
        y = symx._real(x.e) / symx._frac_to_z3(__import__("fractions").Fraction(step))
        return symx.SymBool(z3.ToReal(z3.ToInt(y)) == y)
    return D(x) % step == 0


def _eligible(book, side, mode, p, kw, mark):
    """levels an order may touch, best first (book is already best first)"""
    if mode in ("limit", "usd"):
        px0 = book[p["limit_level"]][0]
        return [(px, s) for px, s in book if px == px0]
    if mode == "cap":
        cap = kw["max_mark_price_multiple"]
        if is_sym(cap):
            # the cap is symbolic: eligibility is decided per level by the solver -> use the concrete split of this path
            out = []
            for px, s in book:
                # the code compares the float level price with cap x Decimal(float mark): exact binary values on both sides
                ok = (D(px) < cap * D(mark)) if side == "buy" else (D(px) > D(mark) / cap)
                if bool(ok):
                    out.append((px, s))
            return out
        return [(px, s) for px, s in book if ((D(px) < cap * D(mark)) if side == "buy" else (D(px) > D(mark) / cap))]
    return list(book)


def scenarios(tier):
    out = []
    levels = (1, 2, 3) if tier == "quick" else (1, 2, 3, 4)
    for side in ("buy", "sell"):
        for nl in levels:
            for hold in (False, True):
                out.append(Scenario(f"{side}/market/l{nl}/{'held' if hold else 'flat'}", order, params=dict(side=side, mode="market", levels=nl, hold=hold), shadows=SHADOWS, entry=(f"DeribitOptionMarket.{side}", "check_transaction", "_deduct_order_amount", "get_new_order_list", "get_trade_fee"), nlsat=False, max_paths=3000, time_budget_s=300, canary="CANARY orders are free" if hold or side == "buy" else None))
        for lvl in (0, 1):
            out.append(Scenario(f"{side}/limit/level{lvl}", order, params=dict(side=side, mode="limit", levels=3, hold=True, limit_level=lvl), shadows=SHADOWS, entry=(f"DeribitOptionMarket.{side}",), nlsat=False, canary="CANARY orders are free"))
        out.append(Scenario(f"{side}/usd/level1", order, params=dict(side=side, mode="usd", levels=3, hold=True, limit_level=1), shadows=SHADOWS, entry=(f"DeribitOptionMarket.{side}",), nlsat=False))
        out.append(Scenario(f"{side}/cap/l3", order, params=dict(side=side, mode="cap", levels=3, hold=True), shadows=SHADOWS, entry=(f"DeribitOptionMarket.{side}",), nlsat=False, max_paths=3000, time_budget_s=300))
        out.append(Scenario(f"{side}/market/l2/two_orders", order, params=dict(side=side, mode="market", levels=2, hold=True, orders=2), shadows=SHADOWS, entry=(f"DeribitOptionMarket.{side}",), nlsat=False, max_paths=4000, time_budget_s=400))
    for side in ("buy", "sell"):
        out.append(Scenario(f"{side}/market/l2/held_after_earlier_sale", order, params=dict(side=side, mode="market", levels=2, hold=True, sold_before=True), shadows=SHADOWS, entry=(f"DeribitOptionMarket.{side}", "Order.get_average_price"), nlsat=False, max_paths=3000, time_budget_s=300))
        out.append(Scenario(f"{side}/market/tight_book/two_orders", order, params=dict(side=side, mode="market", levels=3 if tier != "quick" else 2, hold=True, orders=2, book="tight"), shadows=SHADOWS, entry=(f"DeribitOptionMarket.{side}", "get_new_order_list"), nlsat=False, max_paths=4000, time_budget_s=400))
        out.append(Scenario(f"{side}/market/cheap_book", order, params=dict(side=side, mode="market", levels=3 if tier != "quick" else 2, hold=True, orders=2 if tier != "quick" else 1, book="cheap"), shadows=SHADOWS, entry=(f"DeribitOptionMarket.{side}", "get_trade_fee"), nlsat=False, max_paths=4000, time_budget_s=400))
    for side in ("buy", "sell"):
        out.append(Scenario(f"{side}/market/l2/second_order_in_the_next_hourly_bar", order, params=dict(side=side, mode="market", levels=2, hold=True, orders=2, new_hour=True), shadows=SHADOWS, entry=(f"DeribitOptionMarket.{side}", "DeribitOptionMarket.set_market_status"), nlsat=False, max_paths=3000, time_budget_s=400, witness_cap=16))
    for side in ("buy", "sell"):
        out.append(Scenario(f"{side}/from_history/refresh_and_next_bar", refresh, params=dict(side=side), shadows=SHADOWS, entry=(f"DeribitOptionMarket.{side}", "DeribitOptionMarket.set_market_status", "get_new_order_list"), nlsat=False, max_paths=2000, time_budget_s=300, witness_cap=12, canary="CANARY fills never shrink the visible book"))
    out.append(Scenario("buy/market/l2/btc", order, params=dict(side="buy", mode="market", levels=2, hold=False, token="btc"), shadows=SHADOWS, entry=("DeribitOptionMarket.buy",), nlsat=False))
    return out
