"""C16 -- options settle once at expiry with intrinsic payoff net of the delivery fee."""
from datetime import datetime, timedelta
from decimal import Decimal

import pandas as pd

from ..harness import Scenario
from ..models import bars
from ..models.deribit import DeribitWorld, SHADOWS as DSH, FEE_STEP, _dec
from ..symx import ite, sand, sor, snot, smin, smax, sabs, is_sym

D = Decimal
META = {
    "level": "model_checking",
    "level_text": "Bounded symbolic model checking. (a) Settlement step: the real DeribitOptionMarket.update() -> check_option_exercise -> _deliver_option is run "
    "on a real market row for a call or a put with the underlying price, the mark price, the contract amount and the cash symbolic, at a "
    "bar before / at / after the expiry, with the instrument present in or absent from the row; z3 proves on every path: nothing "
    "before expiry; at or after expiry the position disappears with exactly one Expired record and at most one Deliver record; in "
    "the money and payoff > fee => cash grows by contracts x |S-K| / S (rounded to the fee step) minus min(0.015 % x contracts, "
    "12.5 % x option value) and nothing otherwise. (b) Bar loop: the real Actuator runs a minutely Uniswap market together with an "
    "hourly Deribit market over a grid that contains the hour before expiry, the expiry and the hour after; a scripted strategy "
    "buys on the open bar and tries to trade on closed bars; z3 proves that closed-bar trades raise and change nothing, that nothing "
    "settles before expiry, that the position is settled exactly once on the first open bar at or after expiry with the oracle "
    "amounts, and that nothing changes afterwards.",
    "bounds": ["one or two positions (call + put); strike 1650; underlying in [800, 3000], mark in [0, 0.5], contracts integer in [1, 5000]", "(b) 131 one-minute bars around the expiry (two open hourly bars before, the expiry bar, one after), trade attempts from on_bar and after_bar of closed bars, with / without a further accepted trade issued from after_bar of the open bar (symbolic flag)"],
    "outside": ["option value in the fee rule: the statement does not say whether it is the mark value or the intrinsic value; either is accepted", "missing hourly rows (data gaps) at the expiry bar", "float rounding of S and mark (modelled as reals)"],
    "assumptions": ["float prices modelled as reals; quantize ROUND_HALF_UP modelled exactly"],
}
SHADOWS = tuple(dict.fromkeys(DSH + bars.ACTUATOR_SHADOWS))
K = 1650
EXP = pd.Timestamp("2023-09-22 08:00:00")
DELIV = D("0.00015")


def _payoff_oracle(ctx, kind, n, S, mark):
    """returns (paid: SymBool/bool, amount_lo, amount_hi) bounds allowing the half-step rounding of payoff and fee"""
    diff = (S - K) if kind == "CALL" else (K - S)
    itm = diff > 0
    raw = n * (_dec(diff) / _dec(S)) if is_sym(S) or is_sym(n) else D(n) * D(diff / S)
    return itm, raw


def settle(ctx):
    p = ctx.p
    kind = p["kind"]
    name = f"ETH-22SEP23-{K}-{'C' if kind == 'CALL' else 'P'}"
    S = ctx.flt("underlying", 800, 3000)
    mark = ctx.flt("mark", 0, D("0.5"))
    n = _dec(ctx.int_("contracts", 1, 5000))
    cash = ctx.dec("cash", 0, 100)
    ts = {"before": EXP - pd.Timedelta("1h"), "at": EXP, "after": EXP + pd.Timedelta("1h"), "closed_after": EXP + pd.Timedelta("7min")}[p["when"]]
    ins = dict(name=name, type=kind, strike=K, asks=[(0.03, 10.0)], bids=[(0.02, 10.0)], mark=mark, underlying=S, expiry=EXP)
    other = dict(name="ETH-29SEP23-1700-C", type="CALL", strike=1700, asks=[(0.03, 10.0)], bids=[(0.02, 10.0)], mark=0.02, underlying=S, expiry=EXP + pd.Timedelta("7D"))
    rows = [other] if p.get("absent") else [ins, other]
    w = DeribitWorld(ctx, rows, cash=cash, timestamp=ts, price_index=S)
    w.instruments[name] = ins
    m = w.market
    # part of what was bought may have been sold on an earlier bar: what settles is what is still HELD, not what was ever bought
    sold = _dec(ctx.int_("sold_on_an_earlier_bar", 0, 3000)) if ctx.p.get("sold_before") else None
    w.hold(name, n, sold=sold)
    w.hold(other["name"], D(3))
    n_act = len(w.actions)
    try:
        m.update()
    except Exception as e:
        ctx.outcome("raised:" + type(e).__name__)
        ctx.check(f"settlement raises no exception (got {type(e).__name__})", False, detail=str(e)[:200])
        return
    acts = w.actions[n_act:]
    delivered = [a for a in acts if type(a).__name__ == "DeliverAction"]
    expired = [a for a in acts if type(a).__name__ == "ExpiredAction"]
    gone = name not in m.positions
    ctx.outcome(f"{p['when']}:gone={gone},deliver={len(delivered)},expired={len(expired)}")
    ctx.check("the unexpired bystander position is untouched", other["name"] in m.positions and m.positions[other["name"]].amount == 3)
    if p["when"] in ("before", "closed_after"):
        what = "before expiry" if p["when"] == "before" else "on a bar where the hourly market is closed"
        ctx.check(f"nothing is settled {what}", sand(not gone, len(acts) == 0, m.balance == cash))
        return
    items = [
        ("at the first open bar at or after expiry the position is removed", gone),
        ("exactly one Expired record per settled position", len(expired) == 1),
        ("at most one Deliver record per settled position", len(delivered) <= 1),
    ]
    if p.get("absent"):
        mark = 0.0  # the instrument is not in the book: its mark value is taken as 0 (the price comes from the index series)
    itm, raw = _payoff_oracle(ctx, kind, n, S, mark)
    half = FEE_STEP / 2
    mark_r_lo, mark_r_hi = _dec(mark) - half, _dec(mark) + half
    fee_mark_hi = smin(DELIV * n, D("0.125") * n * mark_r_hi)
    fee_mark_lo = smin(DELIV * n, D("0.125") * n * smax(mark_r_lo, 0))
    fee_intr = smin(DELIV * n, D("0.125") * raw)
    gain = m.balance - cash
    if delivered:
        a = delivered[0]
        items.append(("a payoff is delivered only in the money", itm))
        items.append(("payoff == contracts x |S - K| / S rounded to the fee step", sabs(a.deriver_amount - raw) <= half))
        fee_ok_mark = sand(a.fee >= fee_mark_lo - half, a.fee <= fee_mark_hi + half)
        fee_ok_intr = sabs(a.fee - fee_intr) <= half + D("0.125") * half
        items.append(("delivery fee == min(0.015 % x contracts, 12.5 % x option value) rounded to the fee step", sor(fee_ok_mark, fee_ok_intr)))
        items.append(("cash grows by exactly payoff minus fee", gain == a.deriver_amount - a.fee))
        items.append(("a delivered payoff covers its fee", a.deriver_amount > a.fee))
        items.append(("the Deliver record carries the position's amount and strike", sand(a.amount == n, a.strike_price == K)))
    else:
        items.append(("nothing is paid when no Deliver record exists", gain == 0))
        # out of the money, or the payoff would not cover the fee (either reading of 'option value')
        covers_mark = raw - half > fee_mark_hi + half
        covers_intr = raw - half > fee_intr + half + D("0.125") * half
        items.append(("an in-the-money position whose payoff covers the fee is paid", snot(sand(itm, covers_mark, covers_intr))))
    ctx.check_all(items)
    ctx.check("CANARY settlement never pays", gain == 0)


# ------------------------------------------------------------------------------------------------ bar loop


def _deribit_frame(times, instruments):
    """MultiIndex (time, instrument_name) frame as load_deribit_option_data yields it"""
    rows, idx = [], []
    for t in times:
        for i in instruments:
            idx.append((t, i["name"]))
            rows.append(
                dict(
                    state="open", type=i["type"], strike_price=i["strike"], expiry_time=i["expiry"], vega=0.0, theta=0.0, rho=0.0, gamma=0.003, delta=0.5,
                    underlying_price=i["underlying"][t] if isinstance(i["underlying"], dict) else i["underlying"], settlement_price=None,
                    mark_price=i["mark"][t] if isinstance(i["mark"], dict) else i["mark"], mark_iv=30.0, last_price=None, interest_rate=0, bid_iv=0.0,
                    best_bid_price=0.0, best_bid_amount=0.0, ask_iv=0.0, best_ask_price=0.0, best_ask_amount=0.0,
                    asks=[[0.03, 5000.0]], bids=[[0.02, 5000.0]],
                )
            )
    df = pd.DataFrame(rows, index=pd.MultiIndex.from_tuples(idx, names=["time", "instrument_name"]))
    return df.astype(object)


def bar_loop(ctx):
    from demeter import Strategy, MarketInfo, MarketTypeEnum, TokenInfo
    from demeter.deribit import DeribitOptionMarket
    from demeter.uniswap.helper import get_price_from_data

    p = ctx.p
    kind = p["kind"]
    name = f"ETH-22SEP23-{K}-{'C' if kind == 'CALL' else 'P'}"
    start = EXP - pd.Timedelta("65min")
    n_bars = 131
    uni, usdc, eth, pool = bars.make_uni(n_bars, "1min", start=start.to_pydatetime())
    hours = [EXP - pd.Timedelta("1h"), EXP, EXP + pd.Timedelta("1h")]
    S_exp = ctx.flt("underlying_at_expiry", 800, 3000)
    S_after = ctx.flt("underlying_after", 800, 3000)
    mark_exp = ctx.flt("mark_at_expiry", 0, D("0.5"))
    und = {hours[0]: 1650.5, hours[1]: S_exp, hours[2]: S_after}
    mk = {hours[0]: 0.0287, hours[1]: mark_exp, hours[2]: 0.0}
    ins = dict(name=name, type=kind, strike=K, expiry=EXP, underlying=und, mark=mk)
    other = dict(name="ETH-29SEP23-1700-C", type="CALL", strike=1700, expiry=EXP + pd.Timedelta("7D"), underlying=und, mark=0.02)
    ddf = _deribit_frame(hours, [ins, other])
    dm = DeribitOptionMarket(MarketInfo("deribit", MarketTypeEnum.deribit_option), DeribitOptionMarket.ETH, data=ddf)
    prices, quote = get_price_from_data(uni.data, pool)
    a = bars.make_actuator([uni, dm], prices, quote, {usdc: D(10000), eth: D(100)})
    n = _dec(ctx.int_("contracts", 1, 3000))
    log = {"closed_errors": [], "closed_ok": [], "pos": {}, "cash": {}, "buy": None}
    t_buy = hours[0]
    closed_attempts = [hours[0] + pd.Timedelta("1min"), hours[0] + pd.Timedelta("30min"), EXP - pd.Timedelta("1min"), EXP + pd.Timedelta("17min")]

    # a further (accepted) trade issued from after_bar of the open bar: whatever it leaves behind in the bar loop's bookkeeping
    # must not open the market on the closed minute that follows
    late_write = ctx.flag("trade_in_after_bar_of_the_open_bar")
    n_attempts = [0]

    def _attempt(d, ts, sell):
        n_attempts[0] += 1
        before = (d.balance, {k: v.amount for k, v in d.positions.items()}, len(a._currents.actions))
        try:
            if sell:
                d.sell(name, D(1))
            else:
                d.buy(other["name"], D(1))
            log["closed_ok"].append(ts)
        except Exception as e:
            after = (d.balance, {k: v.amount for k, v in d.positions.items()}, len(a._currents.actions))
            log["closed_errors"].append((ts, type(e).__name__, before, after))

    class Script(Strategy):
        def on_bar(self, snapshot):
            d = self.broker.markets[dm.market_info]
            ts = pd.Timestamp(snapshot.timestamp)
            if ts == t_buy:
                d.deposit(D(100))
                log["buy"] = d.buy(name, n)
            elif ts in closed_attempts:
                _attempt(d, ts, ts == closed_attempts[1])

        def after_bar(self, snapshot):
            d = self.broker.markets[dm.market_info]
            ts = pd.Timestamp(snapshot.timestamp)
            if ts == t_buy and late_write:
                d.buy(other["name"], D(1))
            elif ts in closed_attempts[:2]:
                _attempt(d, ts, False)
            log["pos"][ts] = name in d.positions
            log["cash"][ts] = d.balance

    a.strategy = Script()
    try:
        bars.run_quiet(a)
    except Exception as e:
        ctx.outcome("raised:" + type(e).__name__)
        ctx.check(f"the bar loop with an expiring option raises no exception (got {type(e).__name__})", False, detail=str(e)[:300])
        return
    acts = [x for x in a.actions if getattr(x, "instrument_name", None) == name]
    delivered = [x for x in acts if type(x).__name__ == "DeliverAction"]
    expired = [x for x in acts if type(x).__name__ == "ExpiredAction"]
    ctx.outcome(f"ran:deliver={len(delivered)},expired={len(expired)}")
    ctx.check("trades on bars where the hourly market is closed are rejected", len(log["closed_ok"]) == 0 and len(log["closed_errors"]) == n_attempts[0] and n_attempts[0] == len(closed_attempts) + 2)
    for ts, en, before, after in log["closed_errors"]:
        ctx.check("a trade rejected on a closed bar is rejected as 'market not open' (DemeterError)", en == "DemeterError")
        ctx.check("a trade rejected on a closed bar changes nothing", sand(before[0] == after[0], before[2] == after[2], all(before[1][k] == after[1].get(k) for k in before[1])))
    times = sorted(log["pos"])
    cash_after_buy = log["cash"][t_buy]
    items = []
    for ts in times:
        if t_buy <= ts < EXP:
            items.append(("nothing is settled before expiry", sand(log["pos"][ts], log["cash"][ts] == cash_after_buy)))
    ctx.check_all(items)
    ctx.check("the position is gone at the end of the expiry bar", not log["pos"][EXP])
    ctx.check("exactly one Expired record, stamped with the expiry bar", len(expired) == 1 and pd.Timestamp(expired[0].timestamp) == EXP)
    ctx.check("at most one Deliver record, stamped with the expiry bar", len(delivered) <= 1 and all(pd.Timestamp(x.timestamp) == EXP for x in delivered))
    itm, raw = _payoff_oracle(ctx, kind, n, S_exp, mark_exp)
    half = FEE_STEP / 2
    gain = log["cash"][EXP] - cash_after_buy
    fee_mark_hi = smin(DELIV * n, D("0.125") * n * (_dec(mark_exp) + half))
    fee_mark_lo = smin(DELIV * n, D("0.125") * n * smax(_dec(mark_exp) - half, 0))
    fee_intr = smin(DELIV * n, D("0.125") * raw)
    if delivered:
        x = delivered[0]
        ctx.check_all([
            ("a payoff is delivered only in the money (expiry-bar underlying)", itm),
            ("payoff == contracts x |S - K| / S at the expiry bar's underlying", sabs(x.deriver_amount - raw) <= half),
            ("delivery fee follows the rule at the expiry bar", sor(sand(x.fee >= fee_mark_lo - half, x.fee <= fee_mark_hi + half), sabs(x.fee - fee_intr) <= half + D("0.125") * half)),
            ("cash grows by payoff minus fee at the expiry bar", gain == x.deriver_amount - x.fee),
        ])
    else:
        ctx.check("nothing is paid without a Deliver record", gain == 0)
        ctx.check("an in-the-money position whose payoff covers the fee is paid", snot(sand(itm, raw - half > fee_mark_hi + half, raw - half > fee_intr + half + D("0.125") * half)))
    items = []
    for ts in times:
        if ts > EXP:
            items.append(("nothing changes after the settlement (settled exactly once)", sand(not log["pos"][ts], log["cash"][ts] == log["cash"][EXP])))
    ctx.check_all(items)
    ctx.check("CANARY settlement never pays", gain == 0)


def scenarios(tier):
    out = []
    for kind in ("CALL", "PUT"):
        for when in ("before", "at", "after", "closed_after"):
            for absent in (False, True):
                if absent and when in ("before", "closed_after") and tier == "quick":
                    continue
                out.append(Scenario(f"settle/{kind}/{when}/{'absent' if absent else 'present'}", settle, params=dict(kind=kind, when=when, absent=absent), shadows=SHADOWS, entry=("DeribitOptionMarket.update", "check_option_exercise", "_deliver_option", "get_deliver_fee"), nlsat=True, canary="CANARY settlement never pays" if when == "at" and not absent else None, max_paths=400))
        for when in ("at", "after"):
            out.append(Scenario(f"settle/{kind}/{when}/present/partly_sold_earlier", settle, params=dict(kind=kind, when=when, absent=False, sold_before=True), shadows=SHADOWS, entry=("DeribitOptionMarket.update", "check_option_exercise", "_deliver_option"), nlsat=True))
        out.append(Scenario(f"bars/{kind}", bar_loop, params=dict(kind=kind), shadows=SHADOWS, entry=("Actuator.run", "DeribitOptionMarket.set_market_status", "write_func gate", "DeribitOptionMarket.update", "check_option_exercise"), nlsat=True, canary="CANARY settlement never pays", max_paths=200, time_budget_s=400, witness_cap=12))
    return out
