"""C02 -- no look-ahead: bars 0..k depend only on data of bars 0..k; the supplied frames stay intact."""
from datetime import datetime, timedelta
from decimal import Decimal

import pandas as pd

from ..harness import Scenario
from ..models import bars
from ..symx import ite, sand, sor, snot, is_sym

D = Decimal
META = {
    "level": "model_checking",
    "level_text": "Bounded symbolic non-interference check of the real Actuator.run over real markets: the market frame is built with rows 0..k concrete and every "
    "numeric cell of rows k+1..N-1 a fresh symbolic variable (the derived price columns are produced by the repo's own helpers from those "
    "cells); a scripted strategy trades in bars <= k and records the snapshots and prices handed to its hooks. For every recorded output of "
    "bars <= k (account history fields, action records, snapshot cells, prices) z3 is asked whether some future makes it differ from its value "
    "under a reference future (self-composition by substitution); it also checks that no branch decided before the end of bar k mentions a "
    "future variable. After the run every cell of the supplied market and price frames is proved equal to its pre-run value (nested order-book "
    "lists by deep comparison), which is what makes a repeated run on the same inputs reproduce the result.",
    "bounds": ["N <= 4 bars (quick) / 6 (thorough), every split point k < N - 1", "one market type at a time: Uniswap v3 LP, Squeeth with its oSQTH pool (TWAP window, 1-minute and resampled 5-minute bars), Deribit (hourly book next to minutely Uniswap data resampled to 1 h, with and without a missing hourly snapshot), Aave v3, GMX v1", "the scripted strategies listed in the scenario names", "snapshots are read inside the hook AND, as kept objects, again after the run"],
    "outside": ["an explicit second run on the same frame objects (implied by the cell-by-cell inputs-intact obligation)", "indicator columns added by user strategies", "histories longer than N", "symbolic future ticks enter the price helper through a stub (uninterpreted function of the tick): get_sqrt_ratio_at_tick on a symbolic tick is out of reach (DESIGN 3.5)"],
    "assumptions": ["a look-ahead shows as a syntactic or solver-confirmed dependence of an output term (or of a branch condition) on a future variable; values are replayed as two concrete runs that share the prefix"],
}
UNI_SHADOWS = bars.ACTUATOR_SHADOWS


# ------------------------------------------------------------------------------------------------ future cells


class Future:
    """hands out the value of a future cell: a fresh symbolic variable (symbolic run), the solver's value (replay run A) or the
    reference value (replay run B)"""

    def __init__(self, ctx, use_reference=False):
        self.ctx, self.use_reference = ctx, use_reference
        self.vars = {}  # name -> (proxy, reference)

    def cell(self, name, kind, lo, hi, ref):
        ctx = self.ctx
        if self.use_reference:
            return ref
        if name in ctx.vars:
            v = ctx.vars[name][0]
        else:
            v = {"int": ctx.int_, "dec": ctx.dec, "float": ctx.flt}[kind](name, lo, hi)
        self.vars[name] = (v, ref)
        return v


def _mentions(e, names):
    """does the z3 term mention any constant whose name is in `names`?"""
    import z3

    seen, stack = set(), [e]
    while stack:
        t = stack.pop()
        if t.get_id() in seen:
            continue
        seen.add(t.get_id())
        if z3.is_const(t) and t.decl().kind() == z3.Z3_OP_UNINTERPRETED and t.decl().name() in names:
            return True
        stack.extend(t.children())
    return False


def _flatten(x, prefix, out):
    """numbers inside action records / balances / rows -> (label, value) list"""
    from .. import symx

    if isinstance(x, (symx.Sym, Decimal, int, float)) and not isinstance(x, bool):
        out.append((prefix, x))
    elif isinstance(x, dict):
        for k in sorted(x, key=str):
            _flatten(x[k], f"{prefix}.{k}", out)
    elif isinstance(x, (list, tuple)):
        for i, v in enumerate(x):
            _flatten(v, f"{prefix}[{i}]", out)
    elif isinstance(x, pd.Series):
        for k in x.index:
            _flatten(x[k], f"{prefix}.{k}", out)
    elif hasattr(x, "__dict__") and not isinstance(x, type):
        for k, v in sorted(vars(x).items()):
            if k in ("market", "timestamp", "action_type"):
                continue
            _flatten(v, f"{prefix}.{k}", out)
    else:
        out.append((prefix, str(x)))


# ------------------------------------------------------------------------------------------------ worlds


def _uni_world(ctx, p, fut):
    """real UniLpMarket over an N-bar frame whose rows > k are symbolic; the derived columns come from the repo's own helper"""
    from demeter.uniswap.helper import get_price_from_data, _add_statistic_column
    from demeter import TokenInfo
    from demeter.uniswap import UniV3Pool

    n, k = p["bars"], p["k"]
    base_tick = 200000
    ticks = [base_tick + 7 * i for i in range(n)]
    cols = {"netAmount0": [], "netAmount1": [], "closeTick": [], "openTick": [], "lowestTick": [], "highestTick": [], "inAmount0": [], "inAmount1": [], "currentLiquidity": []}
    for i in range(n):
        if i <= k:
            t = ticks[i]
            row = dict(netAmount0=0, netAmount1=0, closeTick=t, openTick=t, lowestTick=t, highestTick=t, inAmount0=10**10 + i, inAmount1=10**19 + i, currentLiquidity=10**18 + i)
        else:
            t = fut.cell(f"f{i}_closeTick", "int", base_tick - 3000, base_tick + 3000, ticks[i])
            row = dict(
                netAmount0=0, netAmount1=0, closeTick=t, openTick=t, lowestTick=t, highestTick=t,
                inAmount0=fut.cell(f"f{i}_inAmount0", "int", 0, 10**13, 10**10 + i),
                inAmount1=fut.cell(f"f{i}_inAmount1", "int", 0, 10**22, 10**19 + i),
                currentLiquidity=fut.cell(f"f{i}_currentLiquidity", "int", 10**12, 10**24, 10**18 + i),
            )
        for c in cols:
            cols[c].append(row[c])
    idx = pd.date_range(bars.START, periods=n, freq="1min")
    df = pd.DataFrame(cols, index=idx, dtype=object)
    uni, usdc, eth, pool = bars.make_uni(n, "1min", frame=df)
    prices, quote = get_price_from_data(uni.data, pool)
    return dict(markets=[uni], frames=[("uni.data", df)], prices=prices, quote=quote, balances={usdc: D(100000), eth: D(10)}, uni=uni, usdc=usdc, eth=eth)


def _uni_script(w, p, log):
    from demeter import Strategy

    uni, k = w["uni"], p["k"]

    class Script(Strategy):
        def on_bar(self, snapshot):
            i = snapshot.row_id
            if i == 0:
                uni.add_liquidity_by_tick(199800, 200400, D("1"), D("1500"))
            if i == min(1, k):
                uni.buy(D("0.01"))
            # a strategy reading the frame through market.data only sees what it asks for: the current row
            row = uni.data.loc[snapshot.timestamp]
            log(i, "on_bar.data_row", {c: row[c] for c in ("closeTick", "inAmount0", "inAmount1", "currentLiquidity", "price")})

        def after_bar(self, snapshot):
            i = snapshot.row_id
            if i == k:
                uni.collect_fee(list(uni.positions)[0]) if uni.positions else None

    return Script


def _squeeth_world(ctx, p, fut):
    """Squeeth market (TWAP window over its own frame) + its oSQTH/WETH pool, 1-minute rows; with p['interval'] the Actuator
    resamples to coarser bars (one row per bar is left: a window cut by row count would then reach into the future)"""
    from demeter import MarketInfo, MarketTypeEnum
    from demeter.squeeth.market import SqueethMarket
    from demeter.squeeth._typing import WETH, oSQTH
    from demeter.uniswap import UniLpMarket, UniV3Pool
    from demeter.uniswap.helper import _add_statistic_column

    step = p.get("step", 1)  # minutes per bar
    n, k = p["bars"], p["k"]
    rows = n * step
    last_known = (k + 1) * step - 1  # last 1-minute row that belongs to bars <= k
    idx = pd.date_range(bars.START, periods=rows, freq="1min")
    eth0 = [D(1600) + D(7) * ((3 * i) % 5) for i in range(rows)]
    osq0 = [D("0.05") + D("0.004") * ((i * 5) % 7) for i in range(rows)]
    nf0 = [D("0.4") - D("0.0001") * i for i in range(rows)]
    eth = [eth0[i] if i <= last_known else fut.cell(f"f{i}_WETH", "dec", 1000, 2500, eth0[i]) for i in range(rows)]
    osq = [osq0[i] if i <= last_known else fut.cell(f"f{i}_OSQTH", "dec", D("0.01"), 1, osq0[i]) for i in range(rows)]
    nf = [nf0[i] if i <= last_known else fut.cell(f"f{i}_norm_factor", "dec", D("0.3"), D("0.45"), nf0[i]) for i in range(rows)]
    sq_df = pd.DataFrame({"norm_factor": nf, "WETH": eth, "OSQTH": osq}, index=idx, dtype=object)
    pool = UniV3Pool(WETH, oSQTH, 0.3, WETH)
    udf = bars.uni_frame(rows, "1min", ticks=[22073 + (i % 3) for i in range(rows)])
    _add_statistic_column(udf, pool)
    uni = UniLpMarket(MarketInfo("Uni", MarketTypeEnum.uniswap_v3), pool, data=udf)
    sq = SqueethMarket(MarketInfo("Squeeth", MarketTypeEnum.squeeth), uni, data=sq_df)
    prices = sq.get_price_from_data()
    from demeter._typing import USD

    return dict(markets=[uni, sq], frames=[("squeeth.data", sq_df), ("uni.data", udf)], prices=prices, quote=USD, balances={WETH: D(100), oSQTH: D(0)}, sq=sq, uni=uni, WETH=WETH)


def _squeeth_script(w, p, log):
    from demeter import Strategy

    sq, k = w["sq"], p["k"]

    class Script(Strategy):
        def on_bar(self, snapshot):
            i = snapshot.row_id
            log(i, "on_bar.twap", {"eth": sq.get_twap_price(w["WETH"])})
            if i == 0:
                key, minted = sq.open_deposit_mint_by_collat_rate(D(10), D(3))
                log(i, "on_bar.minted", minted)
            elif i == k:
                key, minted = sq.open_deposit_mint_by_collat_rate(D(5), D(2))
                log(i, "on_bar.minted", minted)

    return Script


def _deribit_world(ctx, p, fut):
    """hourly bars: minutely Uniswap data resampled to 1h + an hourly Deribit book; with p['hole'] the Deribit history has no rows
    for bar 1 (a missing hourly snapshot)"""
    from demeter import MarketInfo, MarketTypeEnum
    from demeter.deribit import DeribitOptionMarket
    from demeter.uniswap.helper import get_price_from_data
    from .c16 import _deribit_frame
    from .. import symx

    n, k = p["bars"], p["k"]
    start = pd.Timestamp("2023-09-01 06:00:00")
    step = p.get("step_min", 60)  # bar length in minutes: below 60 the hourly option market sits next to finer bars
    uni, usdc, eth, pool = bars.make_uni(n * step, "1min", start=start.to_pydatetime())
    n_hours = n if step == 60 else (n * step + 59) // 60 + 1  # finer bars: one more hourly row than the run reaches
    hours = [start + pd.Timedelta(hours=i) for i in range(n_hours)]
    t_k = start + pd.Timedelta(minutes=k * step)
    k_bar, k = k, max(i for i, h in enumerate(hours) if h <= t_k)  # hourly rows up to and including bar k's hour are the past
    exp = start + pd.Timedelta("21D")
    und, mk = {}, {}
    for i, h in enumerate(hours):
        und[h] = 1650.0 + i if i <= k else fut.cell(f"f{i}_underlying", "float", 800, 3000, 1650.0 + i)
        mk[h] = 0.0287 + 0.001 * i if i <= k else fut.cell(f"f{i}_mark", "float", D("0.001"), D("0.5"), 0.0287 + 0.001 * i)
    name = "ETH-22SEP23-1650-C"
    ins = dict(name=name, type="CALL", strike=1650, expiry=exp, underlying=und, mark=mk)
    other = dict(name="ETH-22SEP23-1700-C", type="CALL", strike=1700, expiry=exp, underlying=und, mark=0.0161)
    present = [h for i, h in enumerate(hours) if not (p.get("hole") and i == 1)]
    ddf = _deribit_frame(present, [ins, other])
    for i, h in enumerate(hours):
        if h not in present:
            continue
        size_a = 5000.0 + i if i <= k else fut.cell(f"f{i}_ask_size", "float", 1, 10**5, 5000.0 + i)
        size_b = 4000.0 + i if i <= k else fut.cell(f"f{i}_bid_size", "float", 1, 10**5, 4000.0 + i)
        ddf.at[(h, name), "asks"] = [[0.03, size_a], [0.031, 100.0]]
        ddf.at[(h, name), "bids"] = [[0.02, size_b], [0.019, 100.0]]
    dm = DeribitOptionMarket(MarketInfo("deribit", MarketTypeEnum.deribit_option), DeribitOptionMarket.ETH, data=ddf)
    if p.get("no_uni"):
        # the option market alone: the account's prices are the ones the repo derives from the option history itself
        from demeter.deribit.helper import get_price_from_data as option_prices
        from demeter._typing import USD

        return dict(markets=[dm], frames=[("deribit.data", ddf)], prices=option_prices(ddf), quote=USD, balances={DeribitOptionMarket.ETH: D(100)}, dm=dm, name=name, other=other["name"])
    prices, quote = get_price_from_data(uni.data, pool)
    return dict(markets=[uni, dm], frames=[("deribit.data", ddf), ("uni.data", uni.data)], prices=prices, quote=quote, balances={usdc: D(10000), eth: D(100)}, dm=dm, name=name, other=other["name"])


def _deribit_script(w, p, log):
    from demeter import Strategy

    dm, k, name = w["dm"], p["k"], w["name"]

    class Script(Strategy):
        def on_bar(self, snapshot):
            i = snapshot.row_id
            if i == 0:
                dm.deposit(D(50))
                # a read-only quote first: it must leave the book (and the supplied frame) as it found them
                log(i, "on_bar.quote_buy", dm.estimate_cost(name, D(300)))
                log(i, "on_bar.quote_sell", dm.estimate_cost(name, D(200), "sell"))
                dm.buy(name, D(300))
            elif i == k:
                # a strategy that simply tries: on a bar without a book (missing hourly snapshot) the trades are rejected
                for what, fn in (("sell", lambda: dm.sell(name, D(100))), ("buy_capped", lambda: dm.buy(w["other"], D(10), max_mark_price_multiple=D("2.5")))):
                    try:
                        fn()
                        log(i, f"on_bar.{what}", "accepted")
                    except Exception as e:
                        log(i, f"on_bar.{what}", "rejected:" + type(e).__name__)

    return Script


def _aave_world(ctx, p, fut):
    """Aave v3 market over an N-bar frame (MultiIndex columns token x field) whose rows > k are symbolic"""
    from demeter import MarketInfo, MarketTypeEnum, TokenInfo
    from demeter.aave import AaveV3Market
    from demeter._typing import USD
    from ..models.aave import RISK_CSV, COLS

    n, k = p["bars"], p["k"]
    toks = {"WETH": TokenInfo("WETH", 18), "DAI": TokenInfo("DAI", 18)}
    idx = pd.date_range(bars.START, periods=n, freq="1min")
    data, price = {}, {"WETH": [], "DAI": []}
    ref = {"liquidity_rate": D("0.02"), "stable_borrow_rate": D("0.05"), "variable_borrow_rate": D("0.04")}
    for tn in toks:
        for c in COLS:
            col = []
            for i in range(n):
                if c in ref:
                    v0 = ref[c]
                else:
                    v0 = D("1.01") + D("0.0001") * i + (D("0.02") if c == "variable_borrow_index" else 0)
                if i <= k:
                    col.append(v0)
                elif c in ref:
                    col.append(fut.cell(f"f{i}_{tn}_{c}", "dec", 0, D("0.5"), v0))
                else:
                    col.append(fut.cell(f"f{i}_{tn}_{c}", "dec", D("1.0"), D("1.5"), v0))
            data[(tn, c)] = col
        p0 = D(1600) if tn == "WETH" else D(1)
        for i in range(n):
            v0 = p0 + (D(3) * i if tn == "WETH" else 0)
            price[tn].append(v0 if i <= k else fut.cell(f"f{i}_price_{tn}", "dec", v0 * D("0.8"), v0 * D("1.2"), v0))
    df = pd.DataFrame(data, index=idx, dtype=object)
    df.columns = pd.MultiIndex.from_tuples(df.columns)
    m = AaveV3Market(MarketInfo("aave", MarketTypeEnum.aave_v3), RISK_CSV, tokens=list(toks.values()), data=df)
    prices = pd.DataFrame(price, index=idx, dtype=object)
    return dict(markets=[m], frames=[("aave.data", df)], prices=prices, quote=USD, balances={toks["WETH"]: D(10), toks["DAI"]: D(1000)}, m=m, toks=toks)


def _aave_script(w, p, log):
    from demeter import Strategy

    m, k, toks = w["m"], p["k"], w["toks"]

    class Script(Strategy):
        def on_bar(self, snapshot):
            i = snapshot.row_id
            if i == 0:
                m.supply(toks["WETH"], D(5), True)
                m.borrow(toks["DAI"], D(2000))
            if i == k:
                m.repay(toks["DAI"], D(100))
                log(i, "on_bar.views", {"hf": m.health_factor, "supply": m.get_supply(toks["WETH"]).amount, "debt": m.get_borrow(toks["DAI"]).amount})

    return Script


def _gmx1_world(ctx, p, fut):
    """GMX v1: one pool row per bar (rows > k symbolic in price, AUM, supply, reward interval and the token's USDG amount)"""
    from demeter import MarketInfo, MarketTypeEnum, TokenInfo
    from demeter.gmx import GmxMarket
    from demeter.gmx.helper import get_price_from_data
    from demeter._typing import USD
    from .c17 import v1_row

    n, k = p["bars"], p["k"]
    idx = pd.date_range(bars.START, periods=n, freq="1min")
    rows = []
    for i in range(n):
        row = dict(v1_row("csv", "weth"))
        row["weth_usdg"] = row["weth_usdg"] + 10**18 * i
        if i > k:
            row["glp_price"] = fut.cell(f"f{i}_glp_price", "dec", D("0.5"), D("1.5"), row["glp_price"])
            row["weth_price"] = fut.cell(f"f{i}_weth_price", "dec", D(10) ** 33, D(4) * D(10) ** 33, row["weth_price"])
            row["wavax_price"] = fut.cell(f"f{i}_wavax_price", "dec", D(10) ** 31, D(5) * D(10) ** 31, row["wavax_price"])
            row["interval"] = fut.cell(f"f{i}_interval", "float", 10**14, 10**16, row["interval"])
            row["weth_usdg"] = fut.cell(f"f{i}_weth_usdg", "int", 10**23, 10**25, row["weth_usdg"])
        rows.append(row)
    df = pd.DataFrame(rows, index=idx).astype(object)
    toks = {"weth": TokenInfo("weth", 18), "wavax": TokenInfo("wavax", 18), "usdc": TokenInfo("usdc", 6)}
    m = GmxMarket(MarketInfo("gmx", MarketTypeEnum.gmx_v1), tokens=list(toks.values()), data=df)
    prices = get_price_from_data(df)
    return dict(markets=[m], frames=[("gmx.data", df)], prices=prices, quote=USD, balances={toks["weth"]: D(10), toks["wavax"]: D(0)}, m=m, weth=toks["weth"])


def _gmx1_script(w, p, log):
    from demeter import Strategy

    m, k = w["m"], p["k"]

    class Script(Strategy):
        def on_bar(self, snapshot):
            i = snapshot.row_id
            if i == 0:
                log(i, "on_bar.glp_bought", m.buy_glp(w["weth"], D("1.5")))
            elif i == k:
                log(i, "on_bar.weth_redeemed", m.sell_glp(w["weth"], m.glp_amount / 2))

    return Script


def _gmx2_world(ctx, p, fut):
    """GMX v2: one pool row per bar (rows > k symbolic in pool amounts, pool value, GM supply, impact pool and both prices)"""
    from demeter import MarketInfo, MarketTypeEnum, TokenInfo
    from demeter.gmx import GmxV2Market
    from demeter.gmx._typing2 import GmxV2Pool
    from demeter.gmx.helper2 import get_price_from_v2_data
    from demeter._typing import USD
    from .c17 import V2_ROWS

    n, k = p["bars"], p["k"]
    idx = pd.date_range(bars.START, periods=n, freq="1min")
    rows = []
    for i in range(n):
        row = dict(V2_ROWS["long_heavy"])
        row["impactPoolAmount"] = 5.0
        row["longAmount"] = row["longAmount"] + 10.0 * i
        if i > k:
            row["longAmount"] = fut.cell(f"f{i}_longAmount", "float", 1000, 10**5, row["longAmount"])
            row["shortAmount"] = fut.cell(f"f{i}_shortAmount", "float", 10**6, 10**8, row["shortAmount"])
            row["poolValue"] = fut.cell(f"f{i}_poolValue", "float", 10**7, 10**9, row["poolValue"])
            row["marketTokensSupply"] = fut.cell(f"f{i}_supply", "float", 10**7, 10**9, row["marketTokensSupply"])
            row["impactPoolAmount"] = fut.cell(f"f{i}_impactPool", "float", 0, 100, row["impactPoolAmount"])
            row["longPrice"] = fut.cell(f"f{i}_longPrice", "float", 1000, 5000, row["longPrice"])
            row["shortPrice"] = fut.cell(f"f{i}_shortPrice", "float", D("0.9"), D("1.1"), row["shortPrice"])
        rows.append(row)
    df = pd.DataFrame(rows, index=idx).astype(object)
    weth, usdc = TokenInfo("weth", 18), TokenInfo("usdc", 6)
    pool = GmxV2Pool(weth, usdc, weth)
    m = GmxV2Market(MarketInfo("gmx2", MarketTypeEnum.gmx_v2), pool, data=df)
    prices = get_price_from_v2_data(df, pool)
    return dict(markets=[m], frames=[("gmx2.data", df)], prices=prices, quote=USD, balances={weth: D(100), usdc: D(10**6)}, m=m, weth=weth, usdc=usdc)


def _gmx2_script(w, p, log):
    from demeter import Strategy

    m, k = w["m"], p["k"]

    class Script(Strategy):
        def on_bar(self, snapshot):
            i = snapshot.row_id
            if i == 0:
                log(i, "on_bar.gm_minted", m.deposit(2.0, 3000.0))
            elif i == k:
                log(i, "on_bar.withdrawn", m.withdraw(m.amount / 2))

    return Script


from .c17 import V2_SHADOWS as GMX2_MODULES

SQUEETH_SHADOWS = tuple(dict.fromkeys(bars.ACTUATOR_SHADOWS + ("demeter.squeeth.market", "demeter.squeeth.helper", "demeter.squeeth._typing")))
DERIBIT_SHADOWS = tuple(dict.fromkeys(bars.ACTUATOR_SHADOWS + ("demeter.deribit.market", "demeter.deribit.helper", "demeter.deribit._typing")))
AAVE_SHADOWS = tuple(dict.fromkeys(bars.ACTUATOR_SHADOWS + ("demeter.aave.market", "demeter.aave.core", "demeter.aave.helper", "demeter.aave._typing")))
WORLDS = {
    "uni": (_uni_world, _uni_script, UNI_SHADOWS),
    "squeeth": (_squeeth_world, _squeeth_script, SQUEETH_SHADOWS),
    "deribit": (_deribit_world, _deribit_script, DERIBIT_SHADOWS),
    "aave": (_aave_world, _aave_script, AAVE_SHADOWS),
    "gmx1": (_gmx1_world, _gmx1_script, tuple(dict.fromkeys(bars.ACTUATOR_SHADOWS + ("demeter.gmx.market", "demeter.gmx.helper")))),
    "gmx2": (_gmx2_world, _gmx2_script, tuple(dict.fromkeys(bars.ACTUATOR_SHADOWS + GMX2_MODULES))),
}


# ------------------------------------------------------------------------------------------------ one run


def _install_stubs():
    """symbolic future ticks cannot enter get_sqrt_ratio_at_tick (2^20 paths): in the symbolic run the price helper answers a
    symbolic tick with an uninterpreted function of it (the dependence is what matters here, not the value)"""
    from .. import symx

    if symx.CUR is None:
        return
    import z3
    import demeter.uniswap.helper as h

    if getattr(h.tick_to_base_unit_price, "_vf_stub", False):
        return
    orig = h.tick_to_base_unit_price

    def tick_to_base_unit_price(tick, d0, d1, t0q):
        if isinstance(tick, symx.Sym):
            r = symx.uf("tick_price", 1)(symx._real(tick.e))
            symx.cur().add(z3.And(r > z3.RealVal("1/1000000"), r < z3.RealVal(10**12)))  # the stub's contract: a price is positive and finite
            return symx.Sym(r, symx.DEC)
        return orig(tick, d0, d1, t0q)

    tick_to_base_unit_price._vf_stub = True
    h.tick_to_base_unit_price = tick_to_base_unit_price


def _snapshot_frame(df):
    """deep snapshot of a frame's cells (nested lists copied) for the inputs-intact check"""
    import copy

    snap = {}
    for c in df.columns:
        col = df[c]
        for r in range(len(df)):
            v = col.iloc[r]
            snap[(r, c)] = copy.deepcopy(v) if isinstance(v, (list, dict)) else v
    return snap


def _run(ctx, p, fut):
    build, script, _ = WORLDS[p["market"]]
    _install_stubs()
    w = build(ctx, p, fut)
    k = p["k"]
    out = {}  # label -> value, outputs of bars <= k
    marks = {}

    def log(i, what, value):
        if i <= k:
            flat = []
            _flatten(value, f"bar{i}.{what}", flat)
            for lab, v in flat:
                out[lab] = v

    Script = script(w, p, log)
    orig_before, orig_on, orig_after = getattr(Script, "before_bar", None), getattr(Script, "on_bar", None), getattr(Script, "after_bar", None)

    kept = []  # the Snapshot OBJECTS handed to the hooks: a strategy may keep them (e.g. to compare this bar with the previous one)

    def rec_snapshot(i, hook, snapshot, retained=False):
        if not retained:
            kept.append((i, hook, snapshot))
        hook = hook + (".kept_until_the_end_of_the_run" if retained else "")
        log(i, f"{hook}.prices", {c: snapshot.prices[c] for c in snapshot.prices.index})
        for mk, ms in snapshot.market_status.items():
            data = ms.data if hasattr(ms, "data") else ms
            if isinstance(data, pd.Series):
                log(i, f"{hook}.market_status[{mk.name}]", {c: data[c] for c in data.index})
            elif isinstance(data, pd.DataFrame):
                log(i, f"{hook}.market_status[{mk.name}]", {f"{r}.{c}": data.loc[r, c] for r in data.index for c in data.columns if c in ("mark_price", "underlying_price", "asks", "bids")})

    class Wrapped(Script):
        def before_bar(self, snapshot):
            rec_snapshot(snapshot.row_id, "before_bar", snapshot)
            if orig_before:
                orig_before(self, snapshot)

        def on_bar(self, snapshot):
            rec_snapshot(snapshot.row_id, "on_bar", snapshot)
            if orig_on:
                orig_on(self, snapshot)

        def after_bar(self, snapshot):
            rec_snapshot(snapshot.row_id, "after_bar", snapshot)
            if orig_after:
                orig_after(self, snapshot)
            if snapshot.row_id == k and ctx.sym:
                marks["assertions_at_end_of_bar_k"] = len(ctx.ex.solver.assertions())

    snaps = [(name, df, _snapshot_frame(df)) for name, df in w["frames"]]
    price_df = w["prices"]
    price_snap = _snapshot_frame(price_df)
    a = bars.make_actuator(w["markets"], price_df, w["quote"], w["balances"])
    if p.get("interval"):
        a.interval = p["interval"]
    a.strategy = Wrapped()
    if ctx.sym:
        marks["assertions_before_run"] = len(ctx.ex.solver.assertions())  # variable ranges and stub contracts come before
    bars.run_quiet(a)
    # ---- the snapshot objects of bars <= k as they are AFTER the run (what a strategy that kept them would read)
    for i, hook, snap in kept:
        if i <= k and hook == "on_bar":
            rec_snapshot(i, hook, snap, retained=True)
    # ---- outputs of bars <= k
    bar_ts = list(a.account_status_df.index)
    for i, st in enumerate(a.account_status):
        if i > k:
            break
        log(i, "account.net_value", st.net_value)
        log(i, "account.asset_value", st.asset_value)
        log(i, "account.asset_balances", {t.name: v for t, v in st.asset_balances.items()})
        for mk, mb in st.market_status.items():
            log(i, f"account.market[{mk.name}]", {f: getattr(mb, f) for f in getattr(mb, "_fields", ()) or vars(mb)})
    n_act = 0
    for act in a.actions:
        i = bar_ts.index(pd.Timestamp(act.timestamp))
        if i <= k:
            log(i, f"action[{n_act}:{type(act).__name__}]", act)
            n_act += 1
    out["__n_actions_upto_k"] = n_act
    return dict(out=out, marks=marks, snaps=snaps, price=(price_df, price_snap), actuator=a, world=w)


def lookahead(ctx):
    import z3
    from .. import symx

    p = ctx.p
    k = p["k"]
    fut = Future(ctx)
    base_assertions = len(ctx.ex.solver.assertions()) if ctx.sym else 0
    try:
        r = _run(ctx, p, fut)
    except Exception as e:
        ctx.outcome("raised:" + type(e).__name__)
        ctx.check(f"the run raises no exception (got {type(e).__name__})", False, detail=str(e)[:300])
        return
    ctx.outcome(f"ran,k={k}")
    out = r["out"]
    names = set(fut.vars)
    # ---- (1) non-interference: outputs of bars <= k do not depend on the future
    if ctx.sym:
        subs = []
        for nm, (v, ref) in fut.vars.items():
            subs.append((v.e, z3.IntVal(ref) if z3.is_int(v.e) else symx._lift(ref)[0] if not z3.is_int(v.e) else None))
        subs = [(a, (z3.ToReal(b) if (z3.is_real(a) and z3.is_int(b)) else b)) for a, b in subs]
        dependent = 0
        for lab, v in out.items():
            if isinstance(v, symx.Sym) and _mentions(v.e, names):
                dependent += 1
                ref_e = z3.substitute(v.e, *subs)
                ctx.check(f"bars <= k: {_generic(lab)} is the same whatever the future rows hold", symx.SymBool(v.e == ref_e))
        if dependent == 0:
            ctx.check("bars <= k: no recorded output mentions a future cell", True)
        # ---- (2) control dependence
        n_end = r["marks"].get("assertions_at_end_of_bar_k")
        if n_end is not None:
            pcs = list(ctx.ex.solver.assertions())[r["marks"]["assertions_before_run"]:n_end]
            bad = [c for c in pcs if _mentions(c, names) and not _is_range_constraint(c, names)]
            ctx.check("no branch decided before the end of bar k depends on a future cell", len(bad) == 0, detail=str(bad[:1])[:300])
    else:
        # replay: the same scenario under the reference future; outputs of the shared prefix must be identical
        r2 = _run(ctx, p, Future(ctx, use_reference=True))
        out2 = r2["out"]
        labs = sorted(set(out) | set(out2))
        groups = {}
        for lab in labs:
            same = lab in out and lab in out2 and _same_value(out[lab], out2[lab])
            g = _generic(lab)
            groups[g] = groups.get(g, True) and same
        for g, ok in groups.items():
            ctx.check(f"bars <= k: {g} is the same whatever the future rows hold", ok)
        ctx.check("bars <= k: no recorded output mentions a future cell", all(groups.values()))
        ctx.check("no branch decided before the end of bar k depends on a future cell", all(groups.values()))
    # ---- (3) inputs intact
    ok_all = True
    for name, df, snap in r["snaps"] + [("token_prices", r["price"][0], r["price"][1])]:
        ok = True
        if len(df.columns) * len(df) != len(snap):
            ok = False
        else:
            for (row, c), v0 in snap.items():
                v1 = df[c].iloc[row]
                ok = ok and _cell_equal(ctx, v0, v1)
        ctx.check(f"the supplied {_generic(name)} frame is unchanged by the run", ok)
    ctx.check("CANARY the run records nothing for bars <= k", len(out) <= 1)


def _is_range_constraint(c, names):
    """variable bounds added when a future cell is created (not a branch)"""
    import z3

    if c.num_args() == 2 and c.decl().kind() in (z3.Z3_OP_LE, z3.Z3_OP_GE, z3.Z3_OP_LT, z3.Z3_OP_GT):
        a, b = c.children()
        return (z3.is_const(a) and (z3.is_int_value(b) or z3.is_rational_value(b))) or (z3.is_const(b) and (z3.is_int_value(a) or z3.is_rational_value(a)))
    return False


def _generic(lab):
    import re

    return re.sub(r"\d+", "#", lab)


def _same_value(a, b):
    if isinstance(a, float) and isinstance(b, float):
        return a == b or (a != a and b != b)
    return type(a) is type(b) and a == b or (not isinstance(a, str) and not isinstance(b, str) and a == b)


def _cell_equal(ctx, v0, v1):
    from .. import symx

    if v0 is v1:
        return True
    if isinstance(v0, (list, tuple)):
        return isinstance(v1, (list, tuple)) and len(v0) == len(v1) and all(_cell_equal(ctx, x, y) for x, y in zip(v0, v1))
    if isinstance(v0, symx.Sym) or isinstance(v1, symx.Sym):
        return bool(ctx.ex.prove(v0 == v1)[0] == "valid")
    try:
        if v0 != v0 and v1 != v1:
            return True  # NaN stays NaN
    except Exception:
        pass
    return bool(v0 == v1)


def scenarios(tier):
    out = []
    kw = dict(nlsat=False, max_paths=400, time_budget_s=300, witness_cap=6)
    for market, (_, _, shadows) in WORLDS.items():
        n = 4 if tier == "quick" else 6
        for k in range(0, n - 1):
            if market == "deribit":
                continue
            kwm = dict(kw, time_budget_s=120, query_timeout_ms=5000) if market == "gmx2" else kw  # float pool maths: non-linear once a future row leaks in
            out.append(Scenario(f"{market}/n{n}/k{k}", lookahead, params=dict(market=market, bars=n, k=k), shadows=shadows, entry=("Actuator.run",), canary="CANARY the run records nothing for bars <= k" if k == 1 else None, **kwm))
    for hole in (False, True):
        n = 3 if tier == "quick" else 4
        for k in range(0, n - 1):
            out.append(Scenario(f"deribit/1h/{'hole' if hole else 'complete'}/n{n}/k{k}", lookahead, params=dict(market="deribit", bars=n, k=k, hole=hole, interval="1h"), shadows=DERIBIT_SHADOWS, entry=("Actuator.run", "DeribitOptionMarket.set_market_status", "DeribitOptionMarket.buy", "DeribitOptionMarket.sell"), **kw))
    # the hourly option market next to 20-minute bars: bars hh:20 and hh:40 lie between two hourly snapshots
    for k in (1, 2, 4) if tier == "quick" else (0, 1, 2, 3, 4):
        out.append(Scenario(f"deribit/20min/n6/k{k}", lookahead, params=dict(market="deribit", bars=6, k=k, interval="20min", step_min=20), shadows=DERIBIT_SHADOWS, entry=("Actuator.run", "DeribitOptionMarket.set_market_status", "DeribitOptionMarket._is_open"), **kw))
    # the option market on its own on 20-minute bars, prices derived from the option history by the repo's helper
    for k in (1, 2, 4) if tier == "quick" else (0, 1, 2, 3, 4):
        out.append(Scenario(f"deribit_alone/20min/n6/k{k}", lookahead, params=dict(market="deribit", bars=6, k=k, interval="20min", step_min=20, no_uni=True), shadows=DERIBIT_SHADOWS, entry=("Actuator.run", "deribit.helper.get_price_from_data", "DeribitOptionMarket.set_market_status", "DeribitOptionMarket.estimate_cost"), **kw))
    # Squeeth on resampled 5-minute bars (the TWAP window is 7 minutes: it spans two bars' worth of the original rows)
    for k in (0, 1) if tier == "quick" else (0, 1, 2):
        out.append(Scenario(f"squeeth/5min/n3/k{k}", lookahead, params=dict(market="squeeth", bars=3 if tier == "quick" else 4, k=k, step=5, interval="5min"), shadows=SQUEETH_SHADOWS, entry=("Actuator.run", "SqueethMarket._resample", "SqueethMarket.get_twap_price"), **kw))
    return out
