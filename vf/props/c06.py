"""C06 -- tick <-> sqrt-price conversions agree with Uniswap v3 TickMath."""
import fractions
import math
from decimal import Decimal
from functools import lru_cache

from ..harness import Scenario
from ..symx import ite, sand, sor, snot, smax, smin, sabs, is_sym

F = fractions.Fraction
META = {
    "technique": "SMT-decided induction lemmas regenerated from the AST of get_sqrt_ratio_at_tick on every run (per-step error lemmas, composition, final conversion, monotonicity; z3, exact integer/rational arithmetic) plus symbolic execution of the real tick/price helpers with z3 (float log as an uninterpreted function with an enclosure contract); counterexamples replayed on the unpatched code",
    "level": "model_checking",
    "level_text": "(a) get_sqrt_ratio_at_tick for ALL ticks by induction over the step list extracted from its AST on every run: exact integer "
    "obligations that every magic constant is within 1/2 unit of 2^128*1.0001^(-2^k/2), z3 lemmas (linear real/integer arithmetic, "
    "universally quantified over the running ratio and its exact value) that one multiply-shift step adds at most 3/2 units of error, "
    "that the Q128 error is < 32 units after any subset of the 19 steps, that the round-up to Q96 (tick<=0) stays within one unit and "
    "the inversion (tick>0) within relative 32*1.0001^(tick/2)/2^128 plus one unit, and strict monotonicity; boundary values by "
    "evaluation. This proves the stated closeness with constant 32 instead of 8 for tick>0 (the whole-function query that could give 8 "
    "is out of reach). (b)-(d) bounded symbolic execution of the real helper functions: sqrt-price -> tick is the floor for every sqrt "
    "price strictly inside a tick interval of a boundary-heavy tick grid (float log as an uninterpreted function constrained by the "
    "monotone enclosure), price<->tick helpers mutually inverse within one tick for decimals {6,8,18}^2 and both orientations, "
    "nearest_usable_tick nearest admissible multiple for every tick and spacing in {1,10,60,200}.",
    "bounds": ["(a) all ticks |t| <= 887272 (induction), proved constant 32 (not 8)", "(b),(c) ticks from a grid of 14 incl. MIN/MAX/0 and +-1; sqrt price symbolic inside the interval, excluding 1e-9 relative around the boundaries", "(d) every tick in [-887272, 887272], spacings {1,10,60,200}"],
    "outside": ["deviations of get_sqrt_ratio_at_tick below 32 units of 2^-128 relative", "float log within 1e-9 relative of a tick boundary", "tick spacings other than the four listed"],
    "assumptions": ["math.log(x, b) is an uninterpreted function constrained by: F(t)(1+1e-9) <= x <= F(t+1)(1-1e-9) => t < log < t+1 (monotonicity + enclosure)", "Decimal.sqrt as exact real square root", "tick/spacing float division exact enough: |tick| < 2^20, spacing <= 200 cannot cross a .5 boundary"],
}
SHADOWS = ("demeter.uniswap.liquitidy_math", "demeter.uniswap.helper")
MIN_TICK, MAX_TICK = -887272, 887272
MIN_SQRT, MAX_SQRT = 4295128739, 1461446703485210103287273052203988822378723970342


@lru_cache(maxsize=None)
def sqrt_pow_enclosure(t: int, bits: int = 230):
    """(lo, hi) rationals with lo <= 1.0001^(t/2) < hi, hi - lo = 2^-bits (exact integer arithmetic)"""
    if t == 0:
        return F(1), F(1)  # exact: there is nothing to round at tick 0
    n = abs(t)
    N, Dn = 10001**n, 10000**n
    if t < 0:
        N, Dn = Dn, N
    r = math.isqrt((N << (2 * bits)) // Dn)
    return F(r, 1 << bits), F(r + 1, 1 << bits)


def exact_sqrt_x96(t: int):
    lo, hi = sqrt_pow_enclosure(t)
    return lo * (1 << 96), hi * (1 << 96)


def _property_tolerance_ok(real_fn, t: int, const=8) -> bool:
    """the property's own tolerance at one tick, evaluated exactly (used to CONFIRM a failed lemma on the real code)"""
    lo, hi = exact_sqrt_x96(t)
    v = real_fn(t)
    slack = F(0)
    if t > 0:
        slack = hi * const * sqrt_pow_enclosure(t)[1] / (1 << 128)
    return (lo - 1 - slack) < v < (hi + 1 + slack)


def _witness_ticks(mask: int, max_abs: int):
    """ticks whose |tick| has the bit(s) of `mask` set, small and large, both signs"""
    out = set()
    for base in (0, 1, 0x55555 & ~mask, max_abs):
        a = (base | mask) if mask else base
        if a > max_abs:
            a = mask
            for b in range(19, -1, -1):
                if a | (1 << b) <= max_abs:
                    a |= 1 << b
        if a <= max_abs:
            out.add(a)
            out.add(-a)
    return sorted(out)


def tickmath(ctx):
    import z3
    from demeter.uniswap.liquitidy_math import get_sqrt_ratio_at_tick as real
    from .. import ast2smt, symx

    try:
        ex = ast2smt.extract(real)
    except ast2smt.ExtractError as e:
        # The function no longer has the shape the induction is generated from (e.g. the unrolled steps became a table + loop).
        # No proof can be produced; what CAN be done is the property's own tolerance, monotonicity and boundary values on the
        # witness ticks the lemmas would have used (every single-bit tick, MIN / MAX / 0, dense-bit ticks). A failure there is a
        # replayable violation; all passing means "cannot decide" and is reported as a harness error, never as a pass.
        ctx.outcome("extract-failed")
        ticks = sorted({t for m in [0] + [1 << k for k in range(20)] for t in _witness_ticks(m, MAX_TICK)} | {MIN_TICK, MAX_TICK, 0, 1, -1, 524287, 524288, -524287, -524288})
        ok_tol = all(_property_tolerance_ok(real, t) for t in ticks)
        ok_mono = all(real(a) < real(b) for a, b in zip(ticks, ticks[1:]))
        ctx.check("WITNESS (extraction failed) closeness to sqrt(1.0001^tick)*2^96 on the lemma witness ticks", ok_tol)
        ctx.check("WITNESS (extraction failed) strictly increasing over the lemma witness ticks", ok_mono)
        ctx.check("boundary: tick 0 -> 2^96", real(0) == 1 << 96)
        ctx.check("boundary: MIN_TICK -> MIN_SQRT_RATIO 4295128739", real(MIN_TICK) == MIN_SQRT)
        ctx.check("boundary: MAX_TICK -> MAX_SQRT_RATIO", real(MAX_TICK) == MAX_SQRT)
        if ok_tol and ok_mono and real(0) == 1 << 96 and real(MIN_TICK) == MIN_SQRT and real(MAX_TICK) == MAX_SQRT:
            raise RuntimeError(f"get_sqrt_ratio_at_tick can no longer be translated ({e}); witness ticks show no violation, the all-ticks claim is NOT decided")
        return
    mdl = ast2smt.model(ex)
    # --- translation validation of the extractor: extracted model == real function
    probe = [0, 1, -1, MIN_TICK, MAX_TICK, 887271, -887271, 12345, -54321, 200000, -200000, 443636, -443636]
    probe += [s * (1 << k) for k in range(20) for s in (1, -1) if (1 << k) <= ex["max_abs"]]
    for t in probe:
        if abs(t) <= ex["max_abs"] and mdl(t) != real(t):
            raise RuntimeError(f"extracted step model disagrees with get_sqrt_ratio_at_tick at tick {t}")
    ctx.outcome(f"extracted:{len(ex['steps'])}-steps")
    key = ctx.values.get("__key") if not ctx.sym else None

    def lemma(name, cond_sym, witness_masks=(0,)):
        """sym mode: discharge the lemma; concrete mode (replay): evaluate the property's own tolerance on witness ticks"""
        name = "LEMMA " + name
        if ctx.sym:
            ctx.check(name, cond_sym)
        elif key == name:
            ok = True
            for m in witness_masks:
                for t in _witness_ticks(m, min(ex["max_abs"], MAX_TICK)):
                    ok = ok and _property_tolerance_ok(real, t)
            ctx.check(name, ok)
        else:
            ctx.check(name, True)

    Q128 = 1 << 128
    half = F(1, 2)
    # --- structure
    masks = [m for m, _, _ in ex["steps"]]
    lemma("domain is |tick| <= 887272", ex["max_abs"] == MAX_TICK, (0,))
    lemma("step masks are 2,4,...,2^19 once each (every bit of |tick| is consumed)", masks == [1 << k for k in range(1, 20)] and ex["seed"][0] == 1, tuple(1 << k for k in range(20)))
    lemma("seed for even |tick| is exactly 2^128", ex["seed"][2] == Q128, (0,))
    lemma("inversion uses 2^256 - 1", ex["inv_const"] == (1 << 256) - 1, (0x55555,))
    if ex["final_shift"] is not None:
        lemma("final conversion is a right shift by 32, rounding up", ex["final_shift"] == 32 and ex["round_up"], (0, 1))
    else:
        # an unrecognised final expression: translated operator by operator and compared with ceil(ratio / 2^32) by the solver
        rr = z3.Int("ratio_f")
        res_f = ast2smt.final_z3(ex, rr)
        two32i = z3.IntVal(1 << 32)
        lemma("final conversion is a right shift by 32, rounding up", symx.SymBool(z3.Implies(z3.And(rr > 0, rr <= z3.IntVal(1 << 161)), z3.And(res_f * two32i >= rr, (res_f - 1) * two32i < rr))), (0, 1))
    # --- constants: |C_k - 2^128 * 1.0001^(-2^k/2)| <= 1/2 (exact integer arithmetic on the enclosure)
    consts = [(1, ex["seed"][1], 128)] + list(ex["steps"])
    for m, c, s in consts:
        if m <= 0 or m & (m - 1) or m > (1 << 19):
            continue
        lo, hi = sqrt_pow_enclosure(-m)
        ok = (F(c) - half <= hi * Q128) and (F(c) + half >= lo * Q128)
        lemma(f"constant for bit {m:#x} is within 1/2 unit of 2^128*1.0001^(-{m}/2)", ok, (m,))
        lemma(f"step for bit {m:#x} shifts by 128", s == 128, (m,))
    # --- solver lemma, one per step: |r - e| <= B  =>  -(B + 3/2) <= ((r*C)>>S) - e*kappa <= B + 1/2   for every kappa within 1/2 unit/2^128 of C
    for m, c, s in ex["steps"]:
        r = z3.Int(f"r_{m}")
        e = z3.Real(f"e_{m}")
        B = z3.Real(f"B_{m}")
        q = z3.Int(f"q_{m}")
        tt = z3.Real(f"t_{m}")  # t = e*d/2^S with |d| <= 1/2, hence |t| <= e/2^(S+1) <= 1/2
        cr = z3.RealVal(c)
        den = z3.RealVal(1 << s)
        hyp = z3.And(
            r >= 0, r <= Q128, e > 0, e <= Q128, B >= 0, B <= 64,
            z3.ToReal(r) - e <= B, e - z3.ToReal(r) <= B,
            z3.ToReal(q) * den <= z3.ToReal(r) * cr, z3.ToReal(r) * cr < (z3.ToReal(q) + 1) * den,  # q = (r*C) >> S
            tt <= z3.RealVal("1/2"), tt >= z3.RealVal("-1/2"),
        )
        target = e * cr / den + tt
        concl = z3.And(z3.ToReal(q) - target <= B + z3.RealVal("1/2"), target - z3.ToReal(q) <= B + z3.RealVal("3/2"))
        lemma(f"one multiply-shift step (bit {m:#x}) adds at most 3/2 units of Q128 error", symx.SymBool(z3.Implies(hyp, concl)), (m,))
    # --- composition: seed error 1/2, 19 steps x 3/2  < 32
    total = half + len(ex["steps"]) * F(3, 2)
    lemma("accumulated Q128 error after any subset of the steps is below 32 units", total < 32 and len(ex["steps"]) == 19, (0xFFFFF & MAX_TICK,))
    # --- final, tick <= 0: result = ceil(ratio / 2^32) within (E - 2^-26, E + 1 + 2^-26) of E = e / 2^32
    r, res = z3.Int("ratio"), z3.Int("res")
    e = z3.Real("e")
    two32 = z3.RealVal(1 << 32)
    hyp = z3.And(r > 0, e > 0, z3.ToReal(r) - e <= 32, e - z3.ToReal(r) <= 32, z3.ToReal(res) * two32 >= z3.ToReal(r), (z3.ToReal(res) - 1) * two32 < z3.ToReal(r))
    concl = z3.And(z3.ToReal(res) - e / two32 < 1 + z3.RealVal(32) / two32, e / two32 - z3.ToReal(res) <= z3.RealVal(32) / two32)
    lemma("tick <= 0: rounding up to Q96 keeps the result within one unit (+2^-27) of sqrt(1.0001^tick)*2^96", symx.SymBool(z3.Implies(hyp, concl)), (0, 1))
    # --- final, tick > 0: inv = (2^256-1) // ratio ; |inv - 2^256/e| <= 33 * 2^256 / (e*(e-32)) + 1 ; e >= 2^63
    inv = z3.Int("inv")
    big = z3.RealVal((1 << 256))
    hyp = z3.And(
        r > 0, e >= z3.RealVal(1 << 63), e <= Q128, z3.ToReal(r) - e <= 32, e - z3.ToReal(r) <= 32,
        z3.ToReal(inv) * z3.ToReal(r) <= big - 1, (z3.ToReal(inv) + 1) * z3.ToReal(r) > big - 1,
    )
    # relative form, cross-multiplied to stay polynomial: |inv*e - 2^256| <= 32*inv + e + 33  (i.e. relative error <= 32/e plus one unit (+33/e))
    concl = z3.And(z3.ToReal(inv) * e - big <= 32 * z3.ToReal(inv) + e + 33, big - z3.ToReal(inv) * e <= 32 * z3.ToReal(inv) + e + 33)
    lemma("tick > 0: inversion keeps the relative error within 32*1.0001^(tick/2)/2^128 plus one unit", symx.SymBool(z3.Implies(hyp, concl)), (0x55555, MAX_TICK))
    # --- smallest exact value is above 2^63 (so the inversion lemma applies) -- exact arithmetic
    lo_min, _ = sqrt_pow_enclosure(-MAX_TICK)
    lemma("exact Q128 ratio at the largest |tick| is above 2^63", lo_min * Q128 > (1 << 63), (MAX_TICK,))
    # --- strict monotonicity from the error bounds: E(t+1) - E(t) = E(t)*(sqrt(1.0001)-1) > 2 + errors
    g_lo = sqrt_pow_enclosure(1)[0] - 1
    E = z3.Real("E")
    a, b = z3.Real("err_a"), z3.Real("err_b")
    rel = z3.RealVal(33) / z3.RealVal(1 << 63)
    hyp = z3.And(E >= z3.RealVal(MIN_SQRT - 2), a > -1 - E * rel - 1, a < 1 + E * rel + 1, b > -1 - E * rel - 1, b < 1 + E * rel + 1)
    gr = z3.RealVal(str(g_lo))
    concl = (E * (1 + gr) + b) - (E + a) > 0
    lemma("strictly increasing in tick (gap sqrt(1.0001)-1 exceeds the error bounds)", symx.SymBool(z3.Implies(hyp, concl)), (0, 1))
    # --- boundary values (evaluation of the real function)
    ctx.check("boundary: tick 0 -> 2^96", real(0) == 1 << 96)
    ctx.check("boundary: MIN_TICK -> MIN_SQRT_RATIO 4295128739", real(MIN_TICK) == MIN_SQRT)
    ctx.check("boundary: MAX_TICK -> MAX_SQRT_RATIO", real(MAX_TICK) == MAX_SQRT)
    ctx.check("boundary: ticks outside the range are rejected", _raises(real, MAX_TICK + 1) and _raises(real, MIN_TICK - 1))
    if ctx.sym:
        ctx.check("CANARY step lemma without the error hypothesis", symx.SymBool(z3.Int("cq") * 2 == z3.Int("cr") * 3))


def _raises(fn, *a):
    try:
        fn(*a)
        return False
    except Exception:
        return True


# ------------------------------------------------------------------------------------------------ (b) sqrt price -> tick is the floor

GRID = (MIN_TICK, MIN_TICK + 1, -443636, -200000, -60, -2, -1, 0, 1, 2, 59, 200000, 443636, MAX_TICK - 2, MAX_TICK - 1)
EPS = F(1, 10**9)


@lru_cache(maxsize=None)
def _ln_sqrt_1p0001():
    """(lo, hi) rational enclosure of ln(sqrt(1.0001)) = ln(1.0001)/2 from the alternating series"""
    x = F(1, 10000)
    s, terms = F(0), []
    for n in range(1, 12):
        s += (-1) ** (n + 1) * x**n / n
        terms.append(s)
    lo, hi = min(terms[-1], terms[-2]), max(terms[-1], terms[-2])
    return lo / 2, hi / 2


def _install_log_contract(ctx, ticks, scale=1):
    """stub contract for math.log(z, sqrt(1.0001)) =: y.  For each listed tick t, with u = z/F(t) - 1:
        F(t)(1+eps) <= z <= F(t+1)(1-eps)  =>  t < y < t+1   and   (u - u^2/2)/L - 1e-6 <= y - t <= u/L + 1e-6
    (monotonicity, ln(1+u) in [u-u^2/2, u], L = ln sqrt(1.0001); eps = 1e-9 and the 1e-6 slack cover float rounding)."""
    from .. import symx
    import z3

    l_lo, l_hi = _ln_sqrt_1p0001()

    def hook(z, base, y):
        for t in ticks:
            f_lo, f_hi = sqrt_pow_enclosure(t)
            lo = f_hi * (1 + EPS)
            hi = sqrt_pow_enclosure(t + 1)[0] * (1 - EPS)
            u_hi = z / z3.RealVal(str(f_lo)) - 1
            u_lo = z / z3.RealVal(str(f_hi)) - 1
            slack = z3.RealVal("1/1000000")
            shape = z3.And(
                y - t <= u_hi / z3.RealVal(str(l_lo)) + slack,
                y - t >= (u_lo - u_lo * u_lo / 2) / z3.RealVal(str(l_hi)) - slack,
            )
            symx.cur().add(z3.Implies(z3.And(z >= z3.RealVal(str(lo)), z <= z3.RealVal(str(hi))), z3.And(y > t, y < t + 1, shape)))

    symx.LOG_HOOK = hook if ctx.sym else None


def sqrt_to_tick(ctx):
    from demeter.uniswap.helper import sqrt_price_x96_to_tick
    from demeter.uniswap.liquitidy_math import get_sqrt_ratio_at_tick

    t = ctx.p["tick"]
    _install_log_contract(ctx, [t - 1, t, t + 1])
    lo = sqrt_pow_enclosure(t)[1] * (1 + EPS) * (1 << 96)
    hi = sqrt_pow_enclosure(t + 1)[0] * (1 - EPS) * (1 << 96)
    x = ctx.int_("sqrt_price_x96", math.ceil(lo), math.floor(hi))
    got = sqrt_price_x96_to_tick(x)
    ctx.outcome("computed")
    ctx.check("sqrt price -> tick returns the greatest tick whose sqrt price does not exceed the input (floor)", got == t)
    ctx.check("CANARY sqrt price -> tick is constant", got == 7)
    if not ctx.sym:
        ctx.check("input lies in [f(tick), f(tick+1))", get_sqrt_ratio_at_tick(t) <= x < get_sqrt_ratio_at_tick(t + 1))


# ------------------------------------------------------------------------------------------------ (c) price <-> tick helpers

def price_tick(ctx):
    from demeter.uniswap import helper as h

    t, d0, d1, q0 = ctx.p["tick"], ctx.p["d0"], ctx.p["d1"], ctx.p["token0_quote"]
    _install_log_contract(ctx, [t - 2, t - 1, t, t + 1])
    # price of tick t and of tick t+1 in base units, from the real helper
    p_a = h.tick_to_base_unit_price(t, d0, d1, q0)
    p_b = h.tick_to_base_unit_price(t + 1, d0, d1, q0)
    lo_p, hi_p = (p_a, p_b) if p_a < p_b else (p_b, p_a)
    # symbolic price strictly inside the tick's price interval (1e-3 of its width, i.e. ~1e-7 relative, away from the ends:
    # the float log contract says nothing within 1e-9 of a boundary)
    lam = ctx.dec("lambda", Decimal("1e-3"), 1 - Decimal("1e-3"))
    price = lo_p + (hi_p - lo_p) * lam
    got = h.base_unit_price_to_tick(price, d0, d1, q0)
    ctx.outcome("computed")
    ctx.check("price -> tick returns the tick whose price interval contains the price", got == t)
    back = h.tick_to_base_unit_price(t if is_sym(got) else got, d0, d1, q0)
    ctx.check("tick -> price -> tick are mutually inverse within one tick", sand(got >= t - 1, got <= t + 1))
    # price -> sqrt_price_x96 -> price
    sx = h.base_unit_price_to_sqrt_price_x96(price, d0, d1, q0)
    p2 = h.sqrt_price_x96_to_base_unit_price(sx, d0, d1, q0)
    ctx.check("price -> sqrtPriceX96 -> price is the identity up to the 2^-96 truncation", ctx.close(p2, price, rel=Decimal("1e-9")))
    ctx.check("CANARY price -> tick is constant", got == 7)


# ------------------------------------------------------------------------------------------------ (d) nearest usable tick

def nearest(ctx):
    from demeter.uniswap.helper import nearest_usable_tick

    sp = ctx.p["spacing"]
    t = ctx.int_("tick", MIN_TICK, MAX_TICK)
    got = nearest_usable_tick(t, sp)
    ctx.outcome("computed")
    ctx.observe("rounded", got)
    k = ctx.int_("k")  # arbitrary other multiple
    other = k * sp
    ctx.check("result is a multiple of the spacing", got % sp == 0)
    ctx.check("result lies inside the valid tick range", sand(got >= MIN_TICK, got <= MAX_TICK))
    admissible = sand(other >= MIN_TICK, other <= MAX_TICK)
    ctx.check("no admissible multiple is strictly nearer", sor(snot(admissible), sabs(other - t) >= sabs(got - t)))
    ctx.check("CANARY nearest usable tick is the tick itself", got == t)


def scenarios(tier):
    out = [Scenario("tickmath/all_ticks_induction", tickmath, shadows=(), entry=("get_sqrt_ratio_at_tick (AST-extracted step list)",), canary="CANARY step lemma without the error hypothesis", expect_outcomes=("extracted:19-steps",), query_timeout_ms=60000)]
    grid = GRID if tier == "thorough" else (MIN_TICK, -200000, -2, -1, 0, 1, 59, 200000, MAX_TICK - 1)
    for t in grid:
        out.append(Scenario(f"sqrt_to_tick/t{t}", sqrt_to_tick, params=dict(tick=t), shadows=SHADOWS, entry=("sqrt_price_x96_to_tick", "_sqrt_price_to_tick"), canary="CANARY sqrt price -> tick is constant"))
    decs = ((6, 18), (18, 6), (18, 18), (8, 18)) if tier == "quick" else tuple((a, b) for a in (6, 8, 18) for b in (6, 8, 18))
    pt = (-200000, -1, 0, 1, 200000) if tier == "quick" else (-443636, -200000, -60, -2, -1, 0, 1, 59, 200000, 443636)
    for t in pt:
        for d0, d1 in decs:
            for q0 in (True, False):
                out.append(Scenario(f"price_tick/t{t}/d{d0}_{d1}/{'q0' if q0 else 'q1'}", price_tick, params=dict(tick=t, d0=d0, d1=d1, token0_quote=q0), shadows=SHADOWS, entry=("base_unit_price_to_tick", "tick_to_base_unit_price", "base_unit_price_to_sqrt_price_x96", "sqrt_price_x96_to_base_unit_price"), canary="CANARY price -> tick is constant"))
    for sp in (1, 10, 60, 200):
        out.append(Scenario(f"nearest_usable_tick/sp{sp}", nearest, params=dict(spacing=sp), shadows=SHADOWS, entry=("nearest_usable_tick",), canary="CANARY nearest usable tick is the tick itself" if sp > 1 else None))
    return out
