"""C20 -- performance metrics equal their definitions."""
import math
from decimal import Decimal

D = Decimal

from ..harness import Scenario
from ..symx import ite, sand, sor, smax, smin, sabs, is_sym

META = {
    "level": "model_checking",
    "level_text": "Bounded symbolic model checking of the real metric functions on pandas object Series of proxies: for every positive net-value "
    "series of length n <= 6 z3 proves max_draw_down equals the maximum over all pairs i<=j of (v_i - v_j)/v_i (hence 0 when never falling, "
    "within [0,1], scale invariant), that return series / multiples follow their definitions and that total and annualised returns agree "
    "across end-point, net-value-series and return-series forms (x**c as an uninterpreted function: equality of forms reduces to "
    "equality of the bases). Volatility, Sharpe, alpha and beta run inside numpy/pandas C kernels that proxies cannot enter: they are "
    "NOT solver-decided; they are only recomputed from the definition on the solver's models in the concrete witness runs. What IS solver-decided "
    "around them: the annualisation rule of volatility for every sampling interval (std as a stub, sqrt axiomatised) and the wiring of "
    "performance_metrics (symbolic time stamps with pandas' Timedelta attribute semantics, kernels as recorders): the interval and duration "
    "handed to volatility / Sharpe / annualised return equal (t1 - t0) and n x (t1 - t0) in days for every interval from 1 minute to 45 days.",
    "bounds": ["series length n in {2..4} (quick) / {2..6} (thorough), values in [1e-3, 1e6], scale factor in [1e-3, 1e3], duration in days in [1, 3650]"],
    "outside": ["volatility, Sharpe ratio, alpha, beta (C kernels; witness-run recomputation only, labelled WITNESS)", "series longer than 6", "IEEE-754 rounding (floats modelled as reals, tolerance 1e-9 relative)"],
    "assumptions": ["floats modelled as reals", "x ** c is an uninterpreted function of (x, c)"],
}
SHADOWS = ("demeter.result.metrics.calculator", "demeter.result.metrics.core")
REL = 1e-9


def _series(ctx, vals, freq="D"):
    import pandas as pd

    idx = pd.date_range("2023-01-01", periods=len(vals), freq=freq)
    return pd.Series(vals, index=idx, dtype=object if ctx.sym else float)


def _vals(ctx, n, prefix="v"):
    return [ctx.flt(f"{prefix}{i}", 1e-3, 1e6) for i in range(n)]


def drawdown(ctx):
    import demeter.result.metrics.calculator as c

    n = ctx.p["n"]
    v = _vals(ctx, n)
    got = c.max_draw_down(_series(ctx, v))
    ctx.observe("~mdd", got)
    oracle = 0.0
    for i in range(n):
        for j in range(i, n):
            oracle = smax(oracle, (v[i] - v[j]) / v[i])
    ctx.outcome("computed")
    ctx.check("max drawdown == largest relative decline from a running peak to a later value", ctx.close(got, oracle, rel=REL, abs_=1e-12))
    ctx.check("max drawdown >= 0", got >= -1e-12)
    ctx.check("max drawdown <= 1", got <= 1 + 1e-12)
    nondecr = sand(*[v[i] <= v[i + 1] for i in range(n - 1)])
    ctx.check("never-falling series has max drawdown 0", sor(not nondecr if not is_sym(nondecr) else ~nondecr, sabs(got) <= 1e-12))
    ctx.check("CANARY drawdown is always zero", sabs(got) <= 1e-12)
    k = ctx.flt("scale", 1e-3, 1e3)
    got2 = c.max_draw_down(_series(ctx, [x * k for x in v]))
    ctx.check("max drawdown is unchanged by rescaling the series", ctx.close(got, got2, rel=REL, abs_=1e-12))


def returns(ctx):
    import demeter.result.metrics.calculator as c
    import numpy as np

    n = ctx.p["n"]
    v = _vals(ctx, n)
    dur = ctx.flt("duration_days", 1, 3650)
    # three regimes only to obtain non-degenerate models for the witness-only statistics (regime 2 is unconstrained)
    regime = ctx.choose("regime", 3)
    if regime == 0:
        ctx.assume(sand(*[v[i + 1] >= v[i] * (1.01 + 0.01 * i) for i in range(n - 1)]))
    elif regime == 1:
        ctx.assume(sand(*[(v[i + 1] <= v[i] * 0.97) if i % 2 else (v[i + 1] >= v[i] * (1.02 + 0.01 * i)) for i in range(n - 1)]))
    s = _series(ctx, v)
    ctx.outcome("computed")
    if not ctx.sym:
        _witness_int_series(ctx, v, dur)
    try:
        rr = c.return_rate_series(s)
        rm = c.return_multiple(s)
    except TypeError as e:
        if ctx.sym and ("ufunc" in str(e) or "numpy" in str(e).lower()):
            # the code now runs a numpy kernel on the series: no proxy can enter it. Not solver-decided on this tree; the concrete
            # witness run of this path (float and integer-dtype series) decides what it can.
            ctx.note(f"return series computed by a numpy kernel ({e}); witness-only on this tree")
            return
        raise
    ctx.check("return series starts at 0", rr.iloc[0] == 0)
    ctx.check("return multiple starts at 1", rm.iloc[0] == 1)
    for t in range(1, n):
        ctx.check("return series == (v_t - v_{t-1}) / v_{t-1}", ctx.close(rr.iloc[t], (v[t] - v[t - 1]) / v[t - 1], rel=REL, abs_=1e-12))
        ctx.check("return multiple == v_t / v_{t-1}", ctx.close(rm.iloc[t], v[t] / v[t - 1], rel=REL))
    total = c.return_rate(v[0], v[-1])
    ctx.check("total return == final/initial - 1", ctx.close(total, v[-1] / v[0] - 1, rel=REL, abs_=1e-12))
    ctx.check("total return agrees with compounding the return series", ctx.close((rr + 1).prod() - 1, total, rel=REL, abs_=1e-9))
    ctx.check("CANARY total return is zero", sabs(total) <= 1e-12)
    ctx.check("return_value == final - initial", ctx.close(c.return_value(v[0], v[-1]), v[-1] - v[0], rel=REL, abs_=1e-12))
    a_if = c.annualized_return(dur, v[0], v[-1])
    a_nv = c.annualized_return(dur, net_values=s)
    a_rr = c.annualized_return(dur, return_rates=rr)
    ctx.check("annualised return: net-value-series form == end-point form", ctx.close(a_nv, a_if, rel=1e-7, abs_=1e-9))
    ctx.check("annualised return: return-series form == end-point form", ctx.close(a_rr, a_if, rel=1e-7, abs_=1e-9))
    if ctx.sym:
        # definition: (final/initial) ** (365/duration) - 1 -- same uninterpreted pow, base and exponent must agree
        from .. import symx
        import z3

        base, expo = symx._to_real_term(v[-1] / v[0])[0], symx._to_real_term(365 / dur)[0]
        ctx.check("annualised return == (final/initial) ** (365/duration) - 1", symx.SymBool(symx._real(a_if.e) == symx.uf("pow", 2)(base, expo) - 1))
    else:
        ctx.check("annualised return == (final/initial) ** (365/duration) - 1", abs(a_if - ((v[-1] / v[0]) ** (365 / dur) - 1)) <= 1e-7 * max(1.0, abs(a_if)))
    s_if = c.annualized_return(dur, v[0], v[-1], interest_type="single")
    s_nv = c.annualized_return(dur, net_values=s, interest_type="single")
    ctx.check("simple annualised return == total return / (duration/365)", ctx.close(s_if, (v[-1] - v[0]) / v[0] / (dur / 365), rel=REL, abs_=1e-12))
    ctx.check("simple annualised return: series form == end-point form", ctx.close(s_nv, s_if, rel=REL, abs_=1e-12))
    if not ctx.sym:
        _witness_stats(ctx, v, dur)


class _StdStub:
    """stands for a returns Series whose sample standard deviation (a C kernel) is the given number"""

    def __init__(self, sd):
        self.sd = sd

    def std(self):
        return self.sd


def volatility_rule(ctx):
    """the annualisation rule around the C kernels: volatility == std x sqrt(365 / interval) for EVERY sampling interval.
    Series.std() is a stub returning a symbolic number; np.sqrt is answered by the engine's sqrt (r >= 0, r*r == x)."""
    import demeter.result.metrics.calculator as c
    from .. import symx

    sd = ctx.flt("std_of_returns", 0, 10)
    interval = ctx.flt("interval_in_day", D(1) / 1440, 60)
    if ctx.sym:
        import numpy as _np

        class NpShim:
            def __getattr__(self, k):
                return getattr(_np, k)

            @staticmethod
            def sqrt(x):
                return symx.sym_float(symx.sym_sqrt(x)) if symx.is_sym(x) else _np.sqrt(x)

        c.np = NpShim()
    vol = c.volatility(_StdStub(sd), interval)
    ctx.outcome("volatility")
    ctx.observe("~vol", vol)
    if ctx.sym:
        ctx.check("volatility == std of returns x sqrt(365 / sampling interval in days), for every interval", sand(vol >= 0, ctx.close(vol * vol * interval, sd * sd * 365, rel=1e-9, abs_=1e-18)))
    else:
        ctx.check("volatility == std of returns x sqrt(365 / sampling interval in days), for every interval", abs(vol - sd * math.sqrt(365 / interval)) <= 1e-9 * max(1.0, abs(vol)))
    ctx.check("CANARY volatility ignores the interval", ctx.close(vol * vol, sd * sd * 365, rel=1e-9, abs_=1e-18) if ctx.sym else abs(vol - sd * math.sqrt(365)) <= 1e-12)


# ------------------------------------------------------------------------------------------------------------------
# performance_metrics: the wiring around the kernels is decided by the solver for EVERY sampling interval.
# The net-value series is a stand-in object whose index holds symbolic time stamps (nanoseconds as a z3 Int, with the
# pandas Timedelta attribute semantics: .value = total ns, .seconds = seconds WITHIN the day, .days = whole days); the
# metric kernels are replaced by recorders, so what is proved is that each kernel is handed the right interval, duration
# and end points.  The concrete run does the same on a real pandas Series / DatetimeIndex.

NS = 10**9


class _Td:
    def __init__(self, ns):
        self.ns = ns

    value = property(lambda self: self.ns)
    days = property(lambda self: self.ns // (86400 * NS))
    seconds = property(lambda self: (self.ns // NS) % 86400)
    microseconds = property(lambda self: (self.ns // 1000) % 10**6)
    nanoseconds = property(lambda self: self.ns % 1000)

    def total_seconds(self):
        return self.ns / 1e9

    def __add__(self, o):
        return _Td(self.ns + o.ns) if isinstance(o, _Td) else NotImplemented

    def __sub__(self, o):
        return _Td(self.ns - o.ns) if isinstance(o, _Td) else NotImplemented

    def __truediv__(self, o):
        return self.ns / o.ns if isinstance(o, _Td) else NotImplemented


class _Stamp:
    def __init__(self, ns):
        self.ns = ns

    def __sub__(self, o):
        return _Td(self.ns - o.ns) if isinstance(o, _Stamp) else _Stamp(self.ns - o.ns)

    def __add__(self, o):
        return _Stamp(self.ns + o.ns)


class _Dropped:
    def __init__(self, tag):
        self.tag = tag

    def dropna(self):
        return self.tag


class _SeriesStub:
    """what performance_metrics touches of a pandas Series: apply, iloc, index, len, pct_change().dropna()"""

    def __init__(self, vals, index):
        self.vals, self.index = list(vals), list(index)
        self.iloc = self.vals

    def apply(self, f):
        return _SeriesStub([f(x) for x in self.vals], self.index)

    def __len__(self):
        return len(self.vals)

    def pct_change(self):
        return _Dropped(("pct_change.dropna", self))


def pm_wiring(ctx):
    import demeter.result.metrics.core as core
    from demeter.result.metrics._typing import MetricEnum

    n = ctx.p["n"]
    v = _vals(ctx, n)
    isec = ctx.int_("interval_seconds", 60, 45 * 86400)  # one minute ... 45 days between samples
    calls = {}

    def rec(name, ret):
        def f(*a, **k):
            calls[name] = (a, k)
            return ret

        return f

    saved = {k: getattr(core, k) for k in ("volatility", "sharpe_ratio", "annualized_return", "max_draw_down", "return_rate", "return_value")}
    for k in saved:
        setattr(core, k, rec(k, ("ret", k)))
    try:
        if ctx.sym:
            s = _SeriesStub(v, [_Stamp(isec * NS * i) for i in range(n)])
            pm = core.performance_metrics(s)
            dur_ns = pm[MetricEnum.duration].ns
        else:
            import pandas as pd

            idx = pd.DatetimeIndex([pd.Timestamp("2023-01-01") + pd.Timedelta(seconds=int(isec) * i) for i in range(n)])
            s = pd.Series([float(x) for x in v], index=idx)
            try:
                pm = core.performance_metrics(s)
            except ZeroDivisionError:
                ctx.outcome("crashed")
                ctx.check("performance_metrics: sampling interval handed to volatility == time between the first two samples, in days", False)
                return
            dur_ns = pm[MetricEnum.duration].value
    finally:
        for k, f in saved.items():
            setattr(core, k, f)
    ctx.outcome("computed")
    iday = isec / 86400 if not ctx.sym else isec / 86400.0
    dday = iday * n  # the property's duration: number of samples x sampling interval (end - start + one interval)

    def eq(a, b):
        return ctx.close(a, b, rel=1e-12, abs_=1e-15)

    (va, _k) = calls["volatility"]
    ctx.check("performance_metrics: sampling interval handed to volatility == time between the first two samples, in days", eq(va[1], iday))
    (sa, _k) = calls["sharpe_ratio"]
    ctx.check("performance_metrics: sampling interval handed to the Sharpe ratio == time between the first two samples, in days", eq(sa[0], iday))
    ctx.check("performance_metrics: duration handed to the Sharpe ratio == samples x interval, in days", eq(sa[1], dday))
    ctx.check("performance_metrics: risk-free rate handed on unchanged", sa[3] == 0.03)
    (aa, _k) = calls["annualized_return"]
    ctx.check("performance_metrics: duration handed to the annualised return == samples x interval, in days", eq(aa[0], dday))
    ctx.check("performance_metrics: annualised return is taken between the first and the last net value", sand(eq(aa[1], v[0]), eq(aa[2], v[-1])))
    (ra, _k) = calls["return_rate"]
    ctx.check("performance_metrics: return rate is taken between the first and the last net value", sand(eq(ra[0], v[0]), eq(ra[1], v[-1])))
    ctx.check("performance_metrics: reported duration == samples x interval", dur_ns == isec * NS * n)
    ctx.check("performance_metrics: every kernel's result is reported under its own key", all(pm[getattr(MetricEnum, k)] == ("ret", k) for k in saved))
    ctx.check("CANARY interval is always one day", eq(va[1], 1.0))



def _witness_int_series(ctx, v, dur):
    """NOT solver-decided: the return functions on an integer-dtype net-value series (numpy dtype rules are outside the proxies)"""
    import pandas as pd
    import demeter.result.metrics.calculator as c

    ints = [int(float(x) * 1000) + 1 for x in v]
    si = pd.Series(ints, index=pd.date_range("2023-01-01", periods=len(ints), freq="D"), dtype="int64")
    ok = True
    try:
        rm = c.return_multiple(si)
        rr = c.return_rate_series(si)
        for t in range(1, len(ints)):
            ok = ok and abs(float(rm.iloc[t]) - ints[t] / ints[t - 1]) <= 1e-9 * max(1.0, ints[t] / ints[t - 1])
            ok = ok and abs(float(rr.iloc[t]) - (ints[t] - ints[t - 1]) / ints[t - 1]) <= 1e-9
        a_if = c.annualized_return(float(dur), ints[0], ints[-1])
        a_nv = c.annualized_return(float(dur), net_values=si)
        ok = ok and abs(float(a_nv) - float(a_if)) <= 1e-7 * max(1.0, abs(float(a_if)))
    except Exception:
        ok = False
    ctx.check("WITNESS integer-dtype net-value series: return multiple / return series / annualised return match recomputation", ok)


def _witness_stats(ctx, v, dur):
    """NOT solver-decided: volatility / Sharpe / alpha / beta / performance_metrics recomputed from the definitions on this model"""
    import statistics
    import pandas as pd
    import demeter.result.metrics.calculator as c
    from demeter.result.metrics.core import performance_metrics
    from demeter.result.metrics._typing import MetricEnum

    n = len(v)
    if n < 3:
        return
    s = _series(ctx, v)
    mult = [v[t] / v[t - 1] for t in range(1, n)]
    rets = [m - 1 for m in mult]
    sd = statistics.stdev(mult)
    for interval in (1 / 1440, 1 / 24, 7.0, 30.0, 1.0):
        vol = c.volatility(pd.Series(rets), interval)
        ctx.check("WITNESS volatility == sample std of returns x sqrt(365/interval)", abs(vol - statistics.stdev(rets) * math.sqrt(365 / interval)) <= 1e-9 * max(1, abs(vol)))
    if sd > 1e-12:
        apy = math.prod(mult) ** (365 / dur) - 1
        sh = c.sharpe_ratio(interval, dur, s.astype(float), 0.03)
        exp = (apy - 0.03) / (sd * math.sqrt(365 / interval))
        ctx.check("WITNESS sharpe == (annualised return - rf) / annualised volatility", abs(sh - exp) <= 1e-7 * max(1, abs(exp)))
    bench = [1.0 + 0.1 * ((i * 7) % 5) + 0.01 * i for i in range(n)]
    bm = [bench[t] / bench[t - 1] for t in range(1, n)]
    if statistics.variance(bm) > 1e-12:
        al, be = c.alpha_beta(s.astype(float), _series(ctx, bench).astype(float), dur)
        mb, mp = statistics.mean(bm), statistics.mean(mult)
        cov = sum((a - mp) * (b - mb) for a, b in zip(mult, bm)) / (len(bm) - 1)
        beta = cov / statistics.variance(bm)
        alpha = (math.prod(mult) ** (365 / dur) - 1) - beta * (math.prod(bm) ** (365 / dur) - 1)
        ctx.check("WITNESS beta == cov(portfolio, benchmark) / var(benchmark)", abs(be - beta) <= 1e-7 * max(1, abs(beta)))
        ctx.check("WITNESS alpha == portfolio apy - beta x benchmark apy", abs(al - alpha) <= 1e-6 * max(1, abs(alpha)))
    pm = performance_metrics(s.astype(float))
    ddur = float(n)  # daily index: duration = n days
    ctx.check("WITNESS performance_metrics.return_rate", abs(pm[MetricEnum.return_rate] - (v[-1] / v[0] - 1)) <= 1e-9 * max(1, abs(v[-1] / v[0])))
    ctx.check("WITNESS performance_metrics.annualized_return", abs(pm[MetricEnum.annualized_return] - ((v[-1] / v[0]) ** (365 / ddur) - 1)) <= 1e-7 * max(1, abs(pm[MetricEnum.annualized_return])))
    dd = max((v[i] - v[j]) / v[i] for i in range(n) for j in range(i, n))
    ctx.check("WITNESS performance_metrics.max_draw_down", abs(pm[MetricEnum.max_draw_down] - dd) <= 1e-9)


def scenarios(tier):
    ns = (2, 3, 4) if tier == "quick" else (2, 3, 4, 5, 6)
    out = []
    for n in ns:
        out.append(Scenario(f"drawdown/n{n}", drawdown, params=dict(n=n), shadows=SHADOWS, entry=("max_draw_down", "_withdraw_with_high_low"), canary="CANARY drawdown is always zero", max_paths=6000, time_budget_s=600, witness_cap=40))
    out.append(Scenario("volatility/annualisation_rule", volatility_rule, shadows=SHADOWS, entry=("volatility",), canary="CANARY volatility ignores the interval"))
    for n in (2, 3, 4) if tier == "quick" else (2, 3, 4, 5):
        out.append(Scenario(f"returns/n{n}", returns, params=dict(n=n), shadows=SHADOWS, entry=("return_rate", "return_rate_series", "return_multiple", "annualized_return", "return_value"), canary="CANARY total return is zero", witness_cap=12))
    for n in (2, 3) if tier == "quick" else (2, 3, 5):
        out.append(Scenario(f"performance_metrics/wiring/n{n}", pm_wiring, params=dict(n=n), shadows=SHADOWS, entry=("performance_metrics",), canary="CANARY interval is always one day", nlsat=False))
    return out
