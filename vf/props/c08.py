"""C08 -- per-bar LP fee = volume x fee rate x in-range path fraction x liquidity share."""
from decimal import Decimal

from ..harness import Scenario
from ..models import bars
from ..symx import ite, sand, sor, snot, smax, smin, sabs, is_sym

D = Decimal
META = {
    "level": "model_checking",
    "level_text": "Bounded symbolic model checking. (a) Kernel: the real V3CoreLib.update_fee is executed with the previous close, this bar's close, "
    "the range bounds (all symbolic integers in the whole tick domain), own and pool liquidity, both volumes and the pending amounts "
    "symbolic; every ordering of the four ticks is a path and z3 proves the pending-amount delta equals volume x fee rate x "
    "|path intersect range| / |path| x own/pool (half-open range for a stationary tick), never negative, zero when out of range all "
    "bar. (b) Bar loop: the real Actuator runs a real UniLpMarket for 3 bars over a frame whose volumes and pool liquidity are "
    "symbolic and whose close ticks come from a boundary grid (below / on lower bound / inside / on upper bound / above); a scripted "
    "strategy adds a position and then, in the next bar, performs one of {nothing, swap, add a second position, collect, partial "
    "remove, add to the same position}; z3 proves that each bar's fee is the kernel oracle with the path starting at the PREVIOUS "
    "bar's close whatever the script did, that same-bar operations enter only through own liquidity in the share, that liquidity "
    "added in a bar earns in that bar, and share == own/(pool+own) for a single position and never more with two.",
    "bounds": ["(a) all ticks in [-887272, 887272], liquidity/volumes in [0, 1e30], 3 decimals pairs, fee tiers 0.05 % / 0.3 % / 1 %", "(b) 3 bars, <= 2 positions, close ticks from a 5-point boundary grid around the range (all 25 consecutive pairs), deposit amounts / volumes / pool liquidity symbolic, both quote orientations; the same grid moved so that one close is tick 0 exactly (equal decimals); a second, idle market registered before the pool in the same broker"],
    "outside": ["more than 3 bars / 2 positions", "close ticks outside the grid in the bar-loop part (the kernel part covers all ticks)", "bar 0 (no previous close exists): only 0 <= fee <= full-weight fee is required there"],
    "assumptions": ["Decimal modelled as exact reals", "frame cells: ticks int64, liquidity and volumes Decimal in the witness runs (the dtypes the repo's loader yields)"],
}
SHADOWS = bars.ACTUATOR_SHADOWS
MIN_TICK, MAX_TICK = -887272, 887272
REL = D("1e-25")
RELQ = __import__("fractions").Fraction(1, 10**25)


def _weight(last, close, lower, upper):
    """fraction of the tick path [last, close] inside [lower, upper]; half-open range for a stationary tick"""
    lo = smin(last, close)
    hi = smax(last, close)
    overlap = smax(0, smin(hi, upper) - smax(lo, lower))
    stationary = ite(sand(lower <= close, close < upper), 1, 0)
    moving = ite(hi == lo, 0, _todec(overlap) / _todec(ite(hi == lo, 1, hi - lo)))
    return ite(last == close, _todec(stationary), moving)


def _todec(x):
    from .. import symx
    import fractions

    if isinstance(x, symx.Sym):
        return symx.sym_dec(x)
    return fractions.Fraction(x) if not isinstance(x, fractions.Fraction) else x


def _np_int(ctx, v):
    if ctx.sym:
        return v
    import numpy as np

    return np.int64(v)


def kernel(ctx):
    import pandas as pd
    from demeter import TokenInfo
    from demeter.uniswap import UniV3Pool, Position, PositionInfo
    from demeter.uniswap.core import V3CoreLib

    d0, d1, fee = ctx.p["d0"], ctx.p["d1"], ctx.p["fee"]
    t0, t1 = TokenInfo("AAA", d0), TokenInfo("BBB", d1)
    pool = UniV3Pool(t0, t1, fee, t0)
    last = ctx.int_("last_tick", MIN_TICK, MAX_TICK)
    close = ctx.int_("close_tick", MIN_TICK, MAX_TICK)
    lower = ctx.int_("lower_tick", MIN_TICK, MAX_TICK)
    upper = ctx.int_("upper_tick", MIN_TICK, MAX_TICK)
    ctx.assume(lower < upper)
    L = ctx.int_("liquidity", 0, 10**30)
    cur = ctx.int_("pool_liquidity", 1, 10**30)
    ctx.assume(L <= cur)
    in0 = ctx.int_("in_amount0", 0, 10**30)
    in1 = ctx.int_("in_amount1", 0, 10**30)
    p0 = ctx.dec("pending0", 0, 10**9)
    p1 = ctx.dec("pending1", 0, 10**9)
    pos = Position(p0, p1, L, D(1), D(2), D("1.5"))
    if ctx.sym:
        state = pd.Series({"closeTick": close, "currentLiquidity": cur, "inAmount0": in0, "inAmount1": in1}, dtype=object)
        lt = last
    else:
        state = pd.Series({"closeTick": _np_int(ctx, close), "currentLiquidity": D(cur), "inAmount0": D(in0), "inAmount1": D(in1)}, dtype=object)
        lt = _np_int(ctx, last)
    if not ctx.sym:
        # the tick types the repo's loader yields (numpy.int64 ticks, Decimal liquidity/volumes): must be accepted
        import copy

        try:
            V3CoreLib.update_fee(lt, pool, PositionInfo(lower, upper), copy.copy(pos), state)
            ok = True
        except TypeError:
            ok = False
        except Exception:
            ok = True  # any other exception shows up again (and is judged) in the main call below
        ctx.check("WITNESS update_fee accepts numpy.int64 ticks as the repo's loader yields them", ok)
        state = pd.Series({"closeTick": int(close), "currentLiquidity": D(cur), "inAmount0": D(in0), "inAmount1": D(in1)}, dtype=object)
        lt = int(last)
    try:
        V3CoreLib.update_fee(lt, pool, PositionInfo(lower, upper), pos, state)
    except Exception as e:
        ctx.outcome("raised:" + type(e).__name__)
        ctx.check(f"update_fee raises no exception (got {type(e).__name__})", False)
        return
    ctx.outcome("updated")
    w = _weight(last, close, lower, upper)
    share = _todec(L) / _todec(cur)
    e0 = _todec(in0) / 10**d0 * _todec(pool.fee_rate) * w * share
    e1 = _todec(in1) / 10**d1 * _todec(pool.fee_rate) * w * share
    f0, f1 = pos.pending_amount0 - p0, pos.pending_amount1 - p1
    ctx.observe("fee0", f0)
    ctx.observe("fee1", f1)
    ctx.check("fee is never negative", sand(f0 >= 0, f1 >= 0))
    ctx.check("fee0 == volume0 x fee rate x in-range path fraction x share", ctx.close(f0, e0, rel=REL))
    ctx.check("fee1 == volume1 x fee rate x in-range path fraction x share", ctx.close(f1, e1, rel=REL))
    out_all_bar = sor(sand(last < lower, close < lower), sand(last >= upper, close >= upper))
    ctx.check("nothing is earned when out of range for the whole bar", sor(snot(out_all_bar), sand(f0 == 0, f1 == 0)))
    ctx.check("in-range fraction lies in [0, 1]", sand(w >= 0, w <= 1))
    ctx.check("CANARY fee is always zero", f0 == 0)


# ------------------------------------------------------------------------------------------------ bar loop

LOWER, UPPER = 199980, 200040  # range of position A (tick spacing 10)
GRID = {"below": 199950, "on_lower": 199980, "inside": 200010, "on_upper": 200040, "above": 200070}
B_RANGE = (199900, 200100)


def _mirror(t, token0_quote):
    return t if token0_quote else -t


def bar_loop(ctx):
    import pandas as pd
    import demeter
    from demeter import Strategy, TokenInfo, MarketInfo
    from demeter.uniswap import UniLpMarket, UniV3Pool, PositionInfo
    from demeter.uniswap.helper import _add_statistic_column, get_price_from_data

    p = ctx.p
    t0q = p.get("token0_quote", True)
    sgn = 1 if t0q else -1
    names = [p["t0"], p["t1"], p["t2"]]
    shift = p.get("shift", 0)  # -200010 moves the grid so that the "inside" close is tick 0 exactly (a pool trading at parity)
    ticks = [sgn * (GRID[k] + shift) for k in names]
    n = 3
    lo_a, hi_a = sorted((sgn * (LOWER + shift), sgn * (UPPER + shift)))
    lo_b, hi_b = sorted((sgn * (B_RANGE[0] + shift), sgn * (B_RANGE[1] + shift)))
    vol0 = [ctx.int_(f"in0_{i}", 0, 10**18) for i in range(n)]
    vol1 = [ctx.int_(f"in1_{i}", 0, 10**27) for i in range(n)]
    liq = [ctx.int_(f"pool_liq_{i}", 10**6, 10**24) for i in range(n)]
    usdc, eth = TokenInfo("USDC", 6), (TokenInfo("ETH", 18) if not shift else TokenInfo("USDT", 6))
    if t0q:
        pool = UniV3Pool(usdc, eth, 0.05, usdc)
    else:
        pool = UniV3Pool(eth, usdc, 0.05, usdc)
    df = bars.uni_frame(n, ticks=list(ticks), liquidity=list(liq), in0=list(vol0), in1=list(vol1))
    if not ctx.sym:
        for c in ("closeTick", "openTick", "lowestTick", "highestTick"):
            df[c] = df[c].astype("int64")
        for c in ("currentLiquidity", "inAmount0", "inAmount1"):
            df[c] = df[c].map(lambda x: D(int(x)))
    _add_statistic_column(df, pool)
    m = UniLpMarket(MarketInfo("uni"), pool, data=df)
    prices, quote = get_price_from_data(df, pool)
    markets = [m]
    if p.get("idle_first"):
        # another market of the same broker, registered FIRST and never written to: the bar loop's per-market refresh must still reach `m`
        pool2 = UniV3Pool(pool.token0, pool.token1, 0.3, usdc)
        df2 = bars.uni_frame(n, ticks=list(ticks), liquidity=[10**18] * n, in0=[0] * n, in1=[0] * n)
        if not ctx.sym:
            for c in ("closeTick", "openTick", "lowestTick", "highestTick"):
                df2[c] = df2[c].astype("int64")
        _add_statistic_column(df2, pool2)
        markets = [UniLpMarket(MarketInfo("idle"), pool2, data=df2), m]
    a = bars.make_actuator(markets, prices, quote, {usdc: D(10**7), eth: D(10**4)})
    amt_base = ctx.dec("a_base", D("0.001"), 1000)
    amt_quote = ctx.dec("a_quote", D("1"), 10**6)
    op1 = ctx.choose("op1", 6)
    op2 = ctx.choose("op2", 2)
    swap_amt = ctx.dec("swap_amt", D("0.001"), 10) if op1 == 1 else None
    b_base = ctx.dec("b_base", D("0.001"), 1000) if op1 == 2 else None
    b_quote = ctx.dec("b_quote", 1, 10**6) if op1 == 2 else None
    rm_liq = ctx.int_("remove_liq", 1, 10**30) if op1 == 4 else None
    more_base = ctx.dec("more_base", D("0.001"), 1000) if (op1 == 5 or op2 == 1) else None
    more_quote = ctx.dec("more_quote", 1, 10**6) if (op1 == 5 or op2 == 1) else None
    key_a = PositionInfo(lo_a, hi_a)
    key_b = PositionInfo(lo_b, hi_b)
    rec = {"before": {}, "after": {}, "liq": {}, "last_tick": {}}

    def pend(mk):
        return {k: (v.pending_amount0, v.pending_amount1, v.liquidity) for k, v in mk.positions.items()}

    # the unrelated operation of bar 1 is issued in on_bar (before the bar's fee update) or in after_bar (after it: the write flag then
    # survives into the next bar's first refresh)
    phase1 = ctx.choose("op1_phase", 2) if op1 else 0

    def do_op1(mk):
        if op1 == 1:
            mk.buy(swap_amt)
        elif op1 == 2:
            mk.add_liquidity_by_tick(lo_b, hi_b, b_base, b_quote)
        elif op1 == 3:
            mk.collect_fee(key_a)
        elif op1 == 4:
            mk.remove_liquidity(key_a, rm_liq, collect=False)
        elif op1 == 5:
            mk.add_liquidity_by_tick(lo_a, hi_a, more_base, more_quote)

    class Script(Strategy):
        def on_bar(self, snapshot):
            i = snapshot.row_id
            mk = self.broker.markets[m.market_info]
            if i == 0:
                mk.add_liquidity_by_tick(lo_a, hi_a, amt_base, amt_quote)
            elif i == 1 and phase1 == 0:
                do_op1(mk)
            elif i == 2 and op2 == 1:
                mk.add_liquidity_by_tick(lo_a, hi_a, more_base, more_quote)
            rec["before"][i] = pend(mk)

        def after_bar(self, snapshot):
            i = snapshot.row_id
            mk = self.broker.markets[m.market_info]
            rec["after"][i] = pend(mk)
            if i == 1 and phase1 == 1:
                do_op1(mk)

    a.strategy = Script()
    try:
        bars.run_quiet(a)
    except Exception as e:
        ctx.outcome("raised:" + type(e).__name__)
        ctx.check(f"bar loop with an LP position raises no exception (got {type(e).__name__})", False, detail=str(e)[:200])
        return
    ctx.outcome(f"ran:op1={op1}@{'after_bar' if phase1 else 'on_bar'},op2={op2}")
    fee_rate = _todec(pool.fee_rate)
    d0, d1 = pool.token0.decimal, pool.token1.decimal
    for i in range(n):
        before, after = rec["before"][i], rec["after"][i]
        own_total = sum((v[2] for v in before.values()), 0)
        for k, (b0, b1, Lk) in before.items():
            f0 = after[k][0] - b0
            f1 = after[k][1] - b1
            ctx.observe(f"fee0[{i}]", f0)
            share = _todec(Lk) / (_todec(liq[i]) + _todec(own_total))
            full0 = _todec(vol0[i]) / 10**d0 * fee_rate * share
            full1 = _todec(vol1[i]) / 10**d1 * fee_rate * share
            tag = "A" if k == key_a else "B"
            ctx.check(f"bar {i}: fee is never negative", sand(f0 >= -RELQ * (_todec(b0) + 1), f1 >= -RELQ * (_todec(b1) + 1)))
            ctx.check(f"bar {i}: liquidity is unchanged by the fee update", after[k][2] == Lk)
            if i == 0:
                ctx.check("bar 0: fee is at most the full-weight fee (no previous close exists)", sand(f0 <= full0 * (1 + RELQ) + RELQ * (_todec(b0) + 1), f1 <= full1 * (1 + RELQ) + RELQ * (_todec(b1) + 1)))
                continue
            w = _weight(ticks[i - 1], ticks[i], k.lower_tick, k.upper_tick)
            items = [
                (f"the path starts at the previous bar's close whatever else happens in the bar: fee0 == volume0 x rate x path fraction x own/(pool+own)", ctx.close(f0, full0 * w, rel=REL, abs_=RELQ * (_todec(b0) + 1))),
                (f"the path starts at the previous bar's close whatever else happens in the bar: fee1 == volume1 x rate x path fraction x own/(pool+own)", ctx.close(f1, full1 * w, rel=REL, abs_=RELQ * (_todec(b1) + 1))),
            ]
            single = _todec(Lk) / (_todec(liq[i]) + _todec(Lk))
            items.append(("share of active liquidity never exceeds own/(pool+own)", sand(f0 <= _todec(vol0[i]) / 10**d0 * fee_rate * w * single * (1 + RELQ) + RELQ * (_todec(b0) + 1), f1 <= _todec(vol1[i]) / 10**d1 * fee_rate * w * single * (1 + RELQ) + RELQ * (_todec(b1) + 1))))
            ctx.check_all(items)
    # liquidity added during a bar earns from that bar on: position A exists at the bar-0 update, B at the bar-1 update
    ctx.check("liquidity added during a bar is present at that bar's fee update", key_a in rec["before"][0] and (op1 != 2 or key_b in rec["before"][1 + phase1]))
    ctx.check("CANARY no fee is ever earned", sand(*[rec["after"][i][k][0] == rec["before"][i][k][0] for i in range(n) for k in rec["before"][i]]))


def scenarios(tier):
    out = []
    decs = ((6, 18),) if tier == "quick" else ((6, 18), (18, 6), (8, 18))
    fees = (0.05,) if tier == "quick" else (0.05, 0.3, 1)
    for d0, d1 in decs:
        for fee in fees:
            out.append(Scenario(f"kernel/d{d0}_{d1}/fee{fee}", kernel, params=dict(d0=d0, d1=d1, fee=fee), shadows=SHADOWS, entry=("V3CoreLib.update_fee",), nlsat=False, canary="CANARY fee is always zero", max_paths=600, time_budget_s=300))
    keys = list(GRID)
    for i, k0 in enumerate(keys):
        for j, k1 in enumerate(keys):
            k2 = keys[(i + 2 * j + 1) % 5]
            for t0q in (True, False):
                if not t0q and tier == "quick" and (i + j) % 3 != 0:
                    continue
                out.append(
                    Scenario(
                        f"bars/{k0}>{k1}>{k2}/{'t0quote' if t0q else 't0base'}", bar_loop, params=dict(t0=k0, t1=k1, t2=k2, token0_quote=t0q), shadows=SHADOWS,
                        entry=("Actuator.run", "UniLpMarket.set_market_status", "UniLpMarket.update", "V3CoreLib.update_fee", "UniLpMarket.add_liquidity_by_tick / buy / collect_fee / remove_liquidity"),
                        nlsat=False, max_paths=400, time_budget_s=300, witness_cap=12, canary="CANARY no fee is ever earned" if (k0, k1) == ("inside", "inside") else None,
                    )
                )
    # a pool trading at parity: the "inside" close is tick 0 exactly (range [-30, 30), closes from {-60, -30, 0, 30, 60})
    for k0, k1, k2 in (("inside", "above", "inside"), ("inside", "below", "on_upper"), ("on_lower", "inside", "above"), ("above", "inside", "below")):
        out.append(Scenario(f"bars_around_tick_0/{k0}>{k1}>{k2}", bar_loop, params=dict(t0=k0, t1=k1, t2=k2, token0_quote=True, shift=-200010), shadows=SHADOWS, entry=("Actuator.run", "UniLpMarket.update", "V3CoreLib.update_fee"), nlsat=False, max_paths=400, time_budget_s=300, witness_cap=12))
    # two markets in one broker, the idle one registered first
    for k0, k1, k2 in (("inside", "inside", "above"), ("below", "inside", "on_upper")) + ((("inside", "on_lower", "inside"),) if tier != "quick" else ()):
        out.append(Scenario(f"bars_idle_market_first/{k0}>{k1}>{k2}", bar_loop, params=dict(t0=k0, t1=k1, t2=k2, token0_quote=True, idle_first=True), shadows=SHADOWS, entry=("Actuator.run", "Actuator.__set_market_snapshot", "UniLpMarket.set_market_status", "UniLpMarket.update", "V3CoreLib.update_fee"), nlsat=False, max_paths=400, time_budget_s=300, witness_cap=12))
    return out
