"""C03 -- frozen-market operations never create value, negative holdings, over-redemption."""
from decimal import Decimal

from ..harness import Scenario

D = Decimal
META = {
    "level": "model_checking",
    "level_text": "Bounded symbolic model checking, one inductive step (plus listed two-operation chains): every public write operation of every "
    "market is run on the real classes at a fixed market row from an arbitrary valid pre-state (wallet balances, liquidity and pending fees, "
    "scaled supplies/debts with indices and prices, vault fields, option holdings and order-book sizes, GLP/GM holdings and all operation "
    "arguments symbolic, including zero, the exact holding and oversized amounts). On every feasible path, accepted or rejected, z3 proves "
    "that net value -- both the value reported by Broker.get_account_status and an independent valuation of the raw holdings written in "
    "the harness -- does not rise by more than the wallet's 1e-5 dust, that liquidity add/remove/collect and Aave supply/withdraw/borrow/"
    "repay conserve it, that swaps lose exactly the reported fee, that every holding stays non-negative and that no operation pays out "
    "more of a position than was held.",
    "bounds": [
        "one operation from a symbolic pre-state (induction over histories) plus the two-operation chains listed in the scenario names",
        "pre-state shapes per market listed in vf/models/nv.py; Uniswap pool tick / position range from a grid; GMX pool rows from a grid",
        "amounts in [0, 1e10], Aave indices in [1, 4], prices in [1e-3, 1e5]; negative argument values are outside the claim",
    ],
    "outside": ["swaps with a caller-chosen execution price (excluded by the property)", "histories whose intermediate states leave the stated shapes", "Decimal rounding below 1e-20 relative; float code (GMX v2) in real arithmetic"],
    "assumptions": [
        "the account price vector is the one the market row implies (as Actuator derives both from the same data)",
        "Deribit book satisfies bids <= mark <= asks (stated in the property)",
        "GMX v1 row is self-consistent: glp_price == aum / supply",
        "a Uniswap position lent to a Squeeth vault is valued at the index price by the vault (as the Squeeth controller does): lending or returning it re-values its oSQTH part by (index - mark), which is not counted as value creation",
    ],
}


def scenarios(tier):
    from ..models import nv_scenarios

    return nv_scenarios.scenarios("C03", tier)
