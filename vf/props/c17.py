"""C17 -- GMX mint/redeem: fees bounded and rule-based, round trips never profit."""
from decimal import Decimal

import pandas as pd

from ..harness import Scenario
from ..symx import ite, sand, sor, snot, smin, smax, sabs, is_sym

D = Decimal
META = {
    "level": "model_checking",
    "level_text": "Bounded symbolic model checking of the real GmxMarket (v1) and GmxV2Market with a concrete pool row from a designed grid and the traded "
    "amount, the held shares, the pending reward (v1) and the impact pool (v2) symbolic. v1: z3 proves the fee returned by "
    "get_fee_basis_points lies in [0, 85] bp and is within 1 bp of the Vault's getFeeBasisPoints rule (transcribed from the Solidity "
    "source into integer terms: a differential harness), minted / redeemed amounts follow price x amount / value per share with the "
    "round-down steps, a buy -> sell round trip in the same bar never returns more than was paid, rewards accrue pro rata to the share "
    "of supply, and more GLP than held cannot be redeemed. v2 (float code, real arithmetic): minted and redeemed amounts follow pool "
    "value per share with the deposit / withdraw fee factors, a positive price impact is capped by the impact pool, a negative one "
    "reduces the mint, no more GM than held can be redeemed, and deposit -> withdraw never returns more value than was paid.",
    "bounds": ["v1: pool rows from a grid of 9 (token USDG below / near / at / above target, far above, empty, zero target weight, the first row of the repo's CSV), tokens weth(18) / usdc(6), amount in [1e-6, 1e5] tokens, held GLP in [0, 1e7]", "v2: pool rows from a grid of 5 (balanced, long-heavy, short-heavy, tiny impact pool, no virtual inventory), deposits in [0, 1e4] long / [0, 1e7] short tokens, impact pool in [0, 1e3] tokens, exponent factor 2"],
    "outside": ["symbolic pool rows (probe: unknown at 365 s)", "v2 IEEE rounding (floats modelled as reals; per-path witness runs execute the float code)", "multi-bar sequences other than: every v1 fee figure looked up on an earlier bar with other weights / supply, then the bar under test"],
    "assumptions": ["the v1 row is self-consistent: glp_price == aum / glp supply in matching units (true of the repo's data)", "Vault fee rule transcribed from gmx-contracts VaultUtils.getFeeBasisPoints"],
}
V1_SHADOWS = ("demeter.gmx.market", "demeter.gmx.helper", "demeter.broker._typing", "demeter.broker.broker", "demeter.broker.market", "demeter.utils.application")
V2_SHADOWS = ("demeter.gmx.market2", "demeter.gmx.gmx_v2.ExecuteDepositUtils", "demeter.gmx.gmx_v2.ExecuteWithdrawUtils", "demeter.gmx.gmx_v2.MarketUtils", "demeter.gmx.gmx_v2.SwapPricingUtils", "demeter.gmx.gmx_v2.utils", "demeter.broker._typing", "demeter.broker.broker", "demeter.broker.market", "demeter.utils.application")
TS = pd.Timestamp("2024-10-15 00:00:00")
P30 = 10**30


def _dec(x):
    from .. import symx

    return symx.sym_dec(x) if isinstance(x, symx.Sym) else D(x)


def _q(x):
    """oracle number: symbolic -> decimal-kind term; concrete float / Decimal / int -> exact Fraction"""
    import fractions
    from .. import symx

    if isinstance(x, symx.Sym):
        return symx.Sym(symx._real(x.e), symx.DEC)
    if isinstance(x, symx.SymBool):
        return x
    return fractions.Fraction(x)


# ------------------------------------------------------------------------------------------------ v1

SUPPLY = 21590378240515822066988385  # usdg supply (1e18)
WEIGHTS = {"weth": 20000, "wavax": 10000, "usdc": 46000}
TOTAL_W = sum(WEIGHTS.values())


def v1_row(shape, token):
    row = {
        "glp": D("23218773871711187101247422"), "aum": D("21919427709260225232262199250000000000"), "usdg": SUPPLY, "glp_price": D("0.9440389845893614"),
        "interval": 789480314626619.0, "weth_price": D("2629059000000000000000000000000000"), "wavax_price": D("29070000000000000000000000000000"),
        "usdc_price": 1000000000000000000000000000000, "weth_usdg": 2251390889544051105881610, "wavax_usdg": 1436519617913633284820943, "usdc_usdg": 7045868947750884246915173,
    }
    for k, w in WEIGHTS.items():
        row[f"{k}_weight"] = w
    target = WEIGHTS[token] * SUPPLY // TOTAL_W
    f = {"far_below": 0.2, "near_below": 0.97, "at": 1.0, "near_above": 1.03, "above": 1.6, "far_above": 2.5, "empty": 0.0}
    if shape in f:
        row[f"{token}_usdg"] = int(target * f[shape])
    elif shape == "zero_weight":
        row[f"{token}_weight"] = 0
    elif shape == "csv":
        pass
    return row


def v1_world(ctx, shape, token_name):
    from demeter import Broker, MarketInfo, MarketTypeEnum, TokenInfo, MarketStatus
    from demeter.gmx import GmxMarket

    toks = {"weth": TokenInfo("weth", 18), "wavax": TokenInfo("wavax", 18), "usdc": TokenInfo("usdc", 6)}
    actions = []
    m = GmxMarket(MarketInfo("gmx", MarketTypeEnum.gmx_v1), tokens=list(toks.values()))
    b = Broker(record_action_callback=actions.append)
    b.add_market(m)
    row = v1_row(shape, token_name)
    if ctx.p.get("neighbour_market") and ctx.p.get("market") != "gmx1":  # (the shared C01/C03/C04 worlds bring their own)
        from ..models import neighbours

        neighbours.gmx1()
    if ctx.p.get("prior_bar"):
        # an earlier bar with other weights, supply and pool composition, on which every fee figure is looked up: whatever the
        # market remembers from it must not leak into the bar under test
        import datetime as _dtm

        prev = dict(row)
        prev.update({"weth_weight": 35000, "wavax_weight": 5000, "usdc_weight": 30000, "usdg": SUPPLY * 3 // 2, "weth_usdg": row["weth_usdg"] * 2, "usdc_usdg": row["usdc_usdg"] // 2})
        m.set_market_status(MarketStatus(TS - _dtm.timedelta(minutes=1), pd.Series(prev, dtype=object)), None)
        for t in toks.values():
            m.get_target_amount(t)
            m.get_fee_basis_points(t, D(10) ** 21, True)
            m.get_fee_basis_points(t, D(10) ** 21, False)
    m.set_market_status(MarketStatus(TS, pd.Series(row, dtype=object)), None)
    return m, b, toks, row, actions


def vault_fee(initial, target, u, increase, fee=25, tax=60):
    """VaultUtils.getFeeBasisPoints transcribed (integer arithmetic, non-forking). initial, target: ints; u: symbolic/int"""
    from .. import symx

    nxt = initial + u if increase else ite(u > initial, 0, initial - u)
    if target == 0:
        return fee
    idiff = abs(initial - target)
    ndiff = sabs(nxt - target)
    rebate = (tax * idiff) // target
    improve = 0 if rebate > fee else fee - rebate
    avg = (idiff + ndiff) // 2
    avg = ite(avg > target, target, avg)
    taxed = fee + (tax * avg) // target
    return ite(ndiff < idiff, improve, taxed)


def v1_fee(ctx):
    p = ctx.p
    m, b, toks, row, _ = v1_world(ctx, p["shape"], p["token"])
    tok = toks[p["token"]]
    u = ctx.int_("usdg_amount", 0, 10**27)
    inc = p["increase"]
    fee = m.get_fee_basis_points(tok, _dec(u), inc)
    ctx.outcome("fee")
    ctx.observe("fee_bp", fee)
    target = WEIGHTS[p["token"]] * SUPPLY // TOTAL_W if row[f"{p['token']}_weight"] else 0
    ref = vault_fee(row[f"{p['token']}_usdg"], target, u, inc)
    ctx.check("v1 fee lies between 0 and base + tax (85 bp)", sand(fee >= 0, fee <= 85))
    ctx.check("v1 fee is within one basis point of the Vault's getFeeBasisPoints rule", sabs(fee - ref) <= 1)
    ctx.check("CANARY fee is always the base fee", fee == 25)


def _mint_ref(amount, dec, price, fee_bp, supply, aum_usdg):
    """real-valued GLP (18 decimals) minted for `amount` tokens at `fee_bp`, without the round-down steps"""
    return amount * (10000 - fee_bp) / 10000 * 10**18 * price / P30 * supply / aum_usdg / 10**18  # USDG has 18 decimals whatever the token (Vault.adjustForDecimals)


def v1_trade(ctx):
    import z3

    p = ctx.p
    m, b, toks, row, actions = v1_world(ctx, p["shape"], p["token"])
    tok = toks[p["token"]]
    dec = tok.decimal
    price = D(row[f"{p['token']}_price"])
    amount = ctx.dec("amount", D("0.000001"), 10**5)
    held = ctx.dec("held_glp", 0, 10**7)
    wallet = ctx.dec("wallet", 0, 10**6)
    b.set_balance(tok, wallet)
    m.glp_amount = held
    supply = D(row["glp"])
    aum_usdg = (D(row["aum"]) / D(10**12)).quantize(D(0), rounding="ROUND_DOWN")
    initial = row[f"{p['token']}_usdg"]
    target = WEIGHTS[p["token"]] * SUPPLY // TOTAL_W if row[f"{p['token']}_weight"] else 0
    unit = D(1) / D(10**18)
    try:
        glp = m.buy_glp(tok, amount)
    except Exception as e:
        ctx.outcome("buy rejected:" + type(e).__name__)
        ctx.check("buy_glp is rejected only for lack of balance", sand(type(e).__name__ in ("DemeterError", "AssertionError"), amount > wallet))
        return
    ctx.outcome("bought")
    u0 = _floor(amount * 10**18 * price / P30)
    # the fee is a step function of the (rounded-down) USDG amount: allow the rule's value at u0 and at its two integer neighbours
    refs = [vault_fee(initial, target, smax(u0 + k, 0), True) for k in (-1, 0, 1)]
    lo = _mint_ref(amount, dec, price, smax(*refs) + 1, supply, aum_usdg)
    hi = _mint_ref(amount, dec, price, smin(*refs) - 1, supply, aum_usdg)
    items = [
        ("buy_glp: minted GLP is non-negative", glp >= 0),
        ("buy_glp: minted == price x amount x (1 - fee) / value per share, within the round-down steps and 1 bp of fee", sand(glp <= hi + unit, glp >= lo - 3 * unit - lo * D("1e-20"))),
        ("buy_glp: holding grows by the minted amount", m.glp_amount == held + glp),
        ("buy_glp: wallet pays exactly the stated amount (or is emptied within the 1e-5 dust rule)", sor(b.get_token_balance(tok) == wallet - amount, sand(b.get_token_balance(tok) == 0, sabs(wallet - amount) <= wallet * D(0.00001)))),
        ("buy_glp: one BuyGlp record with the stated amounts", len(actions) == 1 and actions[0].token_amount == amount),
        ("buy_glp: never mints more than the fee-free value of the payment", glp <= _mint_ref(amount, dec, price, 0, supply, aum_usdg) + unit),
    ]
    ctx.check_all(items)
    # ---- immediate redemption of what was just minted, for the same token
    w1 = b.get_token_balance(tok)
    if p.get("oversell"):
        extra = ctx.dec("extra_glp", D("0.000001"), 10**6)
        try:
            out = m.sell_glp(tok, held + glp + extra)
        except Exception as e:
            ctx.outcome("oversell rejected")
            ctx.check("a rejected redemption leaves holding and wallet untouched", sand(m.glp_amount == held + glp, b.get_token_balance(tok) == w1))
            return
        ctx.outcome("oversell accepted")
        ctx.check("no more GLP can be redeemed than is held", False)
        return
    if glp == 0 if not is_sym(glp) else bool(glp == 0):
        ctx.outcome("nothing minted")
        return
    out = m.sell_glp(tok, glp)
    ctx.outcome("sold")
    items = [
        ("round trip: buying GLP and redeeming it at once never returns more than was paid", out <= amount),
        ("sell_glp: holding shrinks by the redeemed amount", m.glp_amount == held),
        ("sell_glp: wallet receives exactly the returned amount", b.get_token_balance(tok) == w1 + out),
        ("sell_glp: token out is non-negative", out >= 0),
    ]
    # redeemed == glp x value per share / price x (1 - fee), within round-down steps and 1 bp
    u_sell = _floor(glp * 10**18 / supply * aum_usdg)
    refs_s = [vault_fee(initial, target, smax(u_sell + k, 0), False) for k in (-1, 0, 1)]
    red_hi = glp * 10**18 / supply * aum_usdg / (price / P30) / 10**18 * (10000 - (smin(*refs_s) - 1)) / 10000
    red_lo = (glp * 10**18 / supply * aum_usdg - 1) / (price / P30) / 10**18 * (10000 - (smax(*refs_s) + 1)) / 10000
    items.append(("sell_glp: redeemed == GLP x value per share / price x (1 - fee), within the round-down steps and 1 bp of fee", sand(out <= red_hi * (1 + D("1e-20")), out >= red_lo * (1 - D("1e-20")))))
    ctx.check_all(items)
    ctx.check("CANARY round trip is free", out == amount)


def _floor(x):
    import math
    from .. import symx

    if isinstance(x, symx.Sym):
        return x.__floor__()
    return int(math.floor(x))


def v1_reward(ctx):
    p = ctx.p
    m, b, toks, row, _ = v1_world(ctx, "csv", "weth")
    held = ctx.dec("held_glp", 0, 10**7)
    r0 = ctx.dec("reward", 0, 10**3)
    m.glp_amount, m.reward = held, r0
    m.update()
    ctx.outcome("updated")
    exp = r0 + D(row["interval"]) * 60 * held / D(row["glp"])
    ctx.check("rewards accrue pro rata to the share of the GLP supply", ctx.close(m.reward, exp, rel=D("1e-25")))
    ctx.check("rewards never decrease", m.reward >= r0)
    ctx.check("holding is untouched by the reward update", m.glp_amount == held)
    ctx.check("CANARY no reward", m.reward == r0)


# ------------------------------------------------------------------------------------------------ v2

V2_ROWS = {
    # long = WETH(18), short = USDC(6); amounts in whole tokens (the repo's data is already scaled)
    "balanced": dict(longAmount=10000.0, shortAmount=30000000.0, virtualSwapInventoryLong=None, virtualSwapInventoryShort=None, poolValue=60500000.0, marketTokensSupply=40000000.0, longPrice=3000.0, shortPrice=1.0, indexPrice=3000.0),
    "long_heavy": dict(longAmount=15000.0, shortAmount=20000000.0, virtualSwapInventoryLong=None, virtualSwapInventoryShort=None, poolValue=64000000.0, marketTokensSupply=50000000.0, longPrice=3000.0, shortPrice=1.0, indexPrice=3000.0),
    "short_heavy": dict(longAmount=5000.0, shortAmount=40000000.0, virtualSwapInventoryLong=None, virtualSwapInventoryShort=None, poolValue=54000000.0, marketTokensSupply=45000000.0, longPrice=3000.0, shortPrice=0.9995, indexPrice=3000.0),
    "virtual": dict(longAmount=12000.0, shortAmount=30000000.0, virtualSwapInventoryLong=30000.0, virtualSwapInventoryShort=60000000.0, poolValue=66000000.0, marketTokensSupply=60000000.0, longPrice=3000.0, shortPrice=1.0, indexPrice=3000.0),
    "small": dict(longAmount=30.0, shortAmount=120000.0, virtualSwapInventoryLong=None, virtualSwapInventoryShort=None, poolValue=200000.0, marketTokensSupply=190000.0, longPrice=2500.0, shortPrice=1.0, indexPrice=2500.0),
}


def v2_world(ctx, shape, impact_pool):
    from demeter import Broker, MarketInfo, MarketTypeEnum, TokenInfo
    from demeter.gmx import GmxV2Market
    from demeter.gmx._typing2 import GmxV2Pool, GmxV2MarketStatus

    if ctx.p.get("neighbour_market") and ctx.p.get("market") != "gmx2":
        from ..models import neighbours

        neighbours.gmx2()
    weth, usdc = TokenInfo("weth", 18), TokenInfo("usdc", 6)
    row = dict(V2_ROWS[shape])
    row["impactPoolAmount"] = impact_pool
    df = pd.DataFrame([row], index=[TS]).astype(object)
    actions = []
    m = GmxV2Market(MarketInfo("gmx2", MarketTypeEnum.gmx_v2), GmxV2Pool(weth, usdc, weth), data=df)
    b = Broker(record_action_callback=actions.append)
    b.add_market(m)
    m.set_market_status(GmxV2MarketStatus(TS, None), None)
    return m, b, weth, usdc, row, actions


def _impact_ref(row, dl_usd, ds_usd):
    """price impact in USD of adding dl_usd / ds_usd to the pool (exponent 2), written from the GMX v2 synthetics rule"""

    def imp(pl, ps):
        d0 = sabs(pl - ps)
        npl, nps = pl + dl_usd, ps + ds_usd
        d1 = sabs(npl - nps)
        same_side = sor(sand(pl <= ps, npl <= nps), sand(pl > ps, npl > nps))
        positive = d1 < d0
        f = ite(positive, _q(D("2e-10")), _q(D("4e-10")))
        pos_f, neg_f = _q(D("2e-10")), _q(D("4e-10"))
        same_val = ite(positive, 1, -1) * sabs(d0 * d0 * f - d1 * d1 * f)
        cross_pos, cross_neg = d0 * d0 * pos_f, d1 * d1 * neg_f
        cross_val = ite(cross_pos > cross_neg, 1, -1) * sabs(cross_pos - cross_neg)
        return ite(same_side, same_val, cross_val)

    v = imp(row["longAmount"] * row["longPrice"], row["shortAmount"] * row["shortPrice"])
    if row["virtualSwapInventoryLong"] is not None:
        vv = imp(row["virtualSwapInventoryLong"] * row["longPrice"], row["virtualSwapInventoryShort"] * row["shortPrice"])
        v = ite(v >= 0, v, ite(vv < v, vv, v))
    return v


def v2_deposit(ctx):
    p = ctx.p
    pool_imp = ctx.flt("impact_pool", 0, 1000)
    m, b, weth, usdc, row, actions = v2_world(ctx, p["shape"], pool_imp)
    side = p["side"]
    la = ctx.flt("long_amount", D("0.0001"), 10**4) if side in ("long", "both") else 0.0
    sa = ctx.flt("short_amount", D("0.01"), 10**7) if side in ("short", "both") else 0.0
    held = ctx.flt("held_gm", 0, 10**6)
    m.amount = held
    b.set_balance(weth, D(10**5))
    b.set_balance(usdc, D(10**8))
    lp, sp = _q(row["longPrice"]), _q(row["shortPrice"])
    try:
        res = m.deposit(la, sa)
    except Exception as e:
        ctx.outcome("deposit rejected:" + type(e).__name__)
        ctx.check(f"deposit of a positive amount within the wallet is accepted (got {type(e).__name__})", False, detail=str(e)[:200])
        return
    ctx.outcome("deposited")
    gm = _q(res.gm_amount)
    ctx.observe("~gm", res.gm_amount)
    la, sa, held, pool_imp = _q(la), _q(sa), _q(held), _q(pool_imp)
    row = {k: (_q(v) if v is not None else None) for k, v in row.items()}
    imp = _impact_ref(row, la * lp, sa * sp)
    total = la * lp + sa * sp
    vps = row["poolValue"] / row["marketTokensSupply"]
    # reference mint, per token: (amount - fee) x price [- negative impact share] + capped positive impact share
    def mint_ref(flip):
        ref = 0
        for amt, pin, pout in ((la, lp, sp), (sa, sp, lp)):
            if not is_sym(amt) and amt == 0:
                continue
            share = imp * (amt * pin) / total
            pos = (share > 0) if not flip else snot(share > 0)
            fee_f = ite(pos, _q(D("0.0005")), _q(D("0.0007")))
            usd = amt * (1 - fee_f) * pin
            pos_amt = smin(share / pout, pool_imp)
            usd = usd + ite(share > 0, pos_amt * pout, share)
            ref = ref + usd / vps
        return ref

    ref = mint_ref(False)
    # float knife edge: when the impact is (numerically) zero its sign, and with it the fee factor, is decided by rounding
    ref_alt = mint_ref(True)
    tiny_impact = sabs(imp) <= total * _q(D("1e-9"))
    tol = _q(D("1e-9"))
    lf, sf = _q(res.long_fee), _q(res.short_fee)
    f5, f7 = _q(D("0.0005")), _q(D("0.0007"))
    items = [
        ("v2 deposit: minted == (amount - fee) x price +/- price impact, over pool value per share", sor(ctx.close(gm, ref, rel=tol, abs_=tol), sand(tiny_impact, ctx.close(gm, ref_alt, rel=tol, abs_=tol)))),
        ("v2 deposit: holding grows by the minted amount", ctx.close(_q(m.amount), held + gm, rel=tol)),
        ("v2 deposit: a positive price impact credits at most the impact pool", gm * vps <= total * (1 - f5) + pool_imp * (ite(la > 0, sp, 0) + ite(sa > 0, lp, 0)) * (1 + tol) + _q(D("1e-6"))),
        ("v2 deposit: wallet pays exactly the stated amounts", sand(ctx.close(_q(b.get_token_balance(weth)), 10**5 - la, rel=tol), ctx.close(_q(b.get_token_balance(usdc)), 10**8 - sa, rel=tol))),
        ("v2 deposit: fee is 0.05 % / 0.07 % of the amount", sand(lf >= la * f5 * (1 - tol), lf <= la * f7 * (1 + tol), sf >= sa * f5 * (1 - tol), sf <= sa * f7 * (1 + tol))),
    ]
    ctx.check_all(items)
    if p.get("then") == "withdraw":
        out = m.withdraw(res.gm_amount)
        ctx.outcome("withdrawn")
        out_usd = _q(out.long_amount) * lp + _q(out.short_amount) * sp
        ctx.check("v2 round trip: depositing and withdrawing at once never returns more value than was paid", out_usd <= total * (1 + tol))
        ctx.check("v2 withdraw: holding returns to what it was", ctx.close(_q(m.amount), held, rel=tol, abs_=tol))
    ctx.check("CANARY v2 deposit mints nothing", gm == 0)


def v2_withdraw(ctx):
    p = ctx.p
    m, b, weth, usdc, row, actions = v2_world(ctx, p["shape"], 100.0)
    held = ctx.flt("held_gm", 0, 10**6)
    req = ctx.flt("withdraw_gm", 0, 2 * 10**6)
    m.amount = held
    b.set_balance(weth, D(0))
    b.set_balance(usdc, D(0))
    row = {k: (_q(v) if v is not None else None) for k, v in row.items()}
    lp, sp = row["longPrice"], row["shortPrice"]
    try:
        res = m.withdraw(req)
    except Exception as e:
        ctx.outcome("withdraw rejected:" + type(e).__name__)
        ctx.check("v2 withdraw: a request within the holding is accepted", req > held)
        ctx.check("v2 withdraw: a rejected request changes nothing", sand(_q(m.amount) == _q(held), b.get_token_balance(weth) == 0, b.get_token_balance(usdc) == 0))
        return
    ctx.outcome("withdrawn")
    req, held = _q(req), _q(held)
    vps = row["poolValue"] / row["marketTokensSupply"]
    lu, su = row["longAmount"] * lp, row["shortAmount"] * sp
    usd = req * vps
    f7 = _q(D("0.0007"))
    exp_l = usd * lu / (lu + su) / lp * (1 - f7)
    exp_s = usd * su / (lu + su) / sp * (1 - f7)
    tol = _q(D("1e-9"))
    ctx.check_all([
        ("v2 withdraw: no more GM than held can be redeemed", req <= held * (1 + tol)),
        ("v2 withdraw: long out == GM x value per share x long share of the pool / price x (1 - fee)", ctx.close(_q(res.long_amount), exp_l, rel=tol, abs_=_q(D("1e-12")))),
        ("v2 withdraw: short out == GM x value per share x short share of the pool / price x (1 - fee)", ctx.close(_q(res.short_amount), exp_s, rel=tol, abs_=_q(D("1e-12")))),
        ("v2 withdraw: holding shrinks by the redeemed amount", ctx.close(_q(m.amount), held - req, rel=tol, abs_=tol)),
        ("v2 withdraw: holding never becomes negative", _q(m.amount) >= -tol),
        ("v2 withdraw: wallet receives exactly the returned amounts", sand(ctx.close(_q(b.get_token_balance(weth)), _q(res.long_amount), rel=tol), ctx.close(_q(b.get_token_balance(usdc)), _q(res.short_amount), rel=tol))),
    ])
    ctx.check("CANARY v2 withdraw pays nothing", _q(res.long_amount) == 0)


def scenarios(tier):
    out = []
    shapes = ("far_below", "near_below", "at", "near_above", "above", "far_above", "empty", "zero_weight", "csv")
    for tok in ("weth", "usdc"):
        for sh in shapes:
            if tier == "quick" and tok == "usdc" and sh not in ("near_below", "far_above", "csv"):
                continue
            for inc in (True, False):
                out.append(Scenario(f"v1/fee/{tok}/{sh}/{'buy' if inc else 'sell'}", v1_fee, params=dict(shape=sh, token=tok, increase=inc), shadows=V1_SHADOWS, entry=("GmxMarket.get_fee_basis_points", "get_target_amount"), nlsat=False, canary="CANARY fee is always the base fee" if sh == "near_above" else None))
            out.append(Scenario(f"v1/trade/{tok}/{sh}", v1_trade, params=dict(shape=sh, token=tok), shadows=V1_SHADOWS, entry=("GmxMarket.buy_glp", "sell_glp", "_add_liquidity", "_remove_liquidity", "buy_usdg", "sell_usdg", "get_fee_basis_points"), nlsat=False, relax_int=True, round_mode="uf", query_timeout_ms=30000, canary="CANARY round trip is free" if sh == "csv" else None, max_paths=300))
        for sh in ("near_below", "above", "csv"):
            for inc in (True, False):
                out.append(Scenario(f"v1/fee_after_another_bar/{tok}/{sh}/{'buy' if inc else 'sell'}", v1_fee, params=dict(shape=sh, token=tok, increase=inc, prior_bar=True), shadows=V1_SHADOWS, entry=("GmxMarket.set_market_status", "GmxMarket.get_fee_basis_points", "get_target_amount"), nlsat=False))
        for inc in (True, False):
            out.append(Scenario(f"v1/fee_with_another_glp_market_in_the_process/{tok}/near_below/{'buy' if inc else 'sell'}", v1_fee, params=dict(shape="near_below", token=tok, increase=inc, neighbour_market=True), shadows=V1_SHADOWS, entry=("GmxMarket.get_fee_basis_points", "get_target_amount"), nlsat=False))
        out.append(Scenario(f"v1/oversell/{tok}", v1_trade, params=dict(shape="csv", token=tok, oversell=True), shadows=V1_SHADOWS, entry=("GmxMarket.sell_glp",), nlsat=False, relax_int=True, round_mode="uf", max_paths=300))
    out.append(Scenario("v1/reward", v1_reward, shadows=V1_SHADOWS, entry=("GmxMarket.update", "_update_fee"), canary="CANARY no reward"))
    out.append(Scenario("v2/deposit/long_heavy/short/another_gm_market_in_the_process", v2_deposit, params=dict(shape="long_heavy", side="short", then="withdraw", neighbour_market=True), shadows=V2_SHADOWS, entry=("GmxV2Market.deposit", "GmxV2Market.withdraw"), nlsat=True, query_timeout_ms=30000, max_paths=400, time_budget_s=300))
    for sh in V2_ROWS:
        for side in ("long", "short", "both"):
            if side == "both" and tier == "quick" and sh not in ("balanced", "long_heavy"):
                continue
            out.append(Scenario(f"v2/deposit/{sh}/{side}", v2_deposit, params=dict(shape=sh, side=side, then="withdraw"), shadows=V2_SHADOWS, entry=("GmxV2Market.deposit", "ExecuteDepositUtils.get_mint_amount", "SwapPriceUtils.getPriceImpactUsd", "MarketUtils.getSwapImpactAmountWithCap", "GmxV2Market.withdraw"), nlsat=True, query_timeout_ms=30000, canary="CANARY v2 deposit mints nothing" if sh == "balanced" else None, max_paths=400, time_budget_s=300))
        out.append(Scenario(f"v2/withdraw/{sh}", v2_withdraw, params=dict(shape=sh), shadows=V2_SHADOWS, entry=("GmxV2Market.withdraw", "ExecuteWithdrawUtils.getOutputAmount", "MarketUtils.getTokenAmountsFromGM"), nlsat=True, canary="CANARY v2 withdraw pays nothing" if sh == "balanced" else None))
    return out
