"""C04 -- a rejected operation leaves wallet, positions, order book and action log intact."""
from decimal import Decimal

from ..harness import Scenario

D = Decimal
META = {
    "level": "model_checking",
    "level_text": "Bounded symbolic model checking, one inductive step: every public write operation of every market is run on the real "
    "classes from an arbitrary valid pre-state (balances, indices, prices, vault fields, order-book sizes and arguments symbolic); on "
    "every feasible rejecting path z3 proves component-wise that wallet, positions, visible order book and action log equal "
    "their pre-call terms. Each distinct rejection (exception type + message stem) is a separate obligation group.",
    "bounds": [
        "one operation from a symbolic pre-state (induction over histories), pre-state shapes listed in vf/models/*",
        "amounts in [0, 1e10], Aave indices in [1, 4], prices in [1e-3, 1e5]; negative amounts are outside the claim",
    ],
    "outside": ["rejections inside the end-of-bar liquidation loops (C12/C14)", "negative argument values", "Decimal rounding below 1e-30 relative"],
    "assumptions": ["Decimal/float modelled as exact reals (DESIGN 6.1)", "Aave pre-states installed as raw scaled balances (all reachable via supply/borrow at an earlier row)"],
}


def scenarios(tier):
    from ..models import aave_c04

    out = []
    out += aave_c04.scenarios(tier)
    from ..models import deribit_c04, nv_scenarios

    out += deribit_c04.scenarios(tier)
    # Uniswap, Squeeth, GMX v1 / v2: the shared one-step worlds (vf/models/nv.py); on every rejecting path the raw state snapshot
    # (wallet, position containers, vault fields, holdings, action log length) must equal the pre-call snapshot component-wise
    out += [s for s in nv_scenarios.scenarios("C04", tier) if s.params["market"] in ("uni", "squeeth", "gmx1", "gmx2") and s.params["op"] is not None]
    return out
