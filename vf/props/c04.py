"""C04 -- a rejected operation leaves wallet, positions, order book and action log intact."""
from decimal import Decimal

from ..harness import Scenario

D = Decimal
META = {
    "level": "model_checking",
    "level_text": "Bounded symbolic model checking, one inductive step: every public write operation of every market is run on the real "
    "classes from an arbitrary valid pre-state (balances, indices, prices, vault fields, order-book sizes and arguments symbolic); on "
    "every feasible rejecting path z3 proves component-wise that wallet, positions, visible order book and action log equal "
    "their pre-call terms. Each distinct rejection (exception type + message stem) is a separate obligation group.",
    "bounds": [
        "one operation from a symbolic pre-state (induction over histories), pre-state shapes listed in vf/models/*",
        "amounts in [0, 1e10], Aave indices in [1, 4], prices in [1e-3, 1e5]; negative amounts are outside the claim",
    ],
    "outside": ["rejections inside the end-of-bar liquidation loops (C12/C14)", "negative argument values", "Decimal rounding below 1e-30 relative"],
    "assumptions": ["Decimal/float modelled as exact reals (DESIGN 6.1)", "Aave pre-states installed as raw scaled balances (all reachable via supply/borrow at an earlier row)"],
}


def scenarios(tier):
    from ..models import aave_c04

    out = []
    out += aave_c04.scenarios(tier)
    from ..models import deribit_c04, nv_scenarios

    out += deribit_c04.scenarios(tier)
    # Uniswap, Squeeth, GMX v1 / v2: the shared one-step worlds (vf/models/nv.py); on every rejecting path the raw state snapshot
    # (wallet, position containers, vault fields, holdings, action log length) must equal the pre-call snapshot component-wise
    out += [s for s in nv_scenarios.scenarios("C04", tier) if s.params["market"] in ("uni", "squeeth", "gmx1", "gmx2") and s.params["op"] is not None]
    return out


def static_report(outcomes):
    """informational (evidence): every `raise` / `require(` site in the bodies of the public write operations (found by walking
    the AST of the current source), and whether some explored path was rejected with that exception type and message stem"""
    import ast
    import inspect
    import re
    import textwrap

    from demeter.aave.market import AaveV3Market
    from demeter.deribit.market import DeribitOptionMarket
    from demeter.gmx.market import GmxMarket
    from demeter.gmx.market2 import GmxV2Market
    from demeter.squeeth.market import SqueethMarket
    from demeter.uniswap.market import UniLpMarket
    from demeter.broker._typing import Asset

    targets = {
        AaveV3Market: ("supply", "withdraw", "borrow", "repay", "change_collateral"),
        DeribitOptionMarket: ("deposit", "withdraw", "buy", "sell", "check_transaction", "_subtract_from_balance", "_deduct_order_amount"),
        UniLpMarket: ("_add_liquidity_by_tick", "remove_liquidity", "collect_fee", "swap", "buy", "sell", "add_liquidity_by_value"),
        SqueethMarket: ("open_deposit_mint", "deposit", "_deposit_uni_position", "_check_uni_position", "_withdraw_collateral", "withdraw_uni_position", "burn_and_withdraw", "_check_vault"),
        GmxMarket: ("buy_glp", "sell_glp"),
        GmxV2Market: ("deposit", "withdraw"),
        Asset: ("sub",),
    }
    seen = " | ".join(sorted(o for o in outcomes if o.startswith("rejected")))
    sites = []
    for cls, names in targets.items():
        for nm in names:
            fn = getattr(cls, nm, None) or getattr(cls, f"_{cls.__name__}__{nm.lstrip('_')}", None)
            if fn is None:
                continue
            fn = getattr(fn, "__wrapped__", fn)
            try:
                src = textwrap.dedent(inspect.getsource(fn))
            except (OSError, TypeError):
                continue
            for node in ast.walk(ast.parse(src)):
                msg = None
                if isinstance(node, ast.Raise) and node.exc is not None:
                    msg = ast.unparse(node.exc)
                elif isinstance(node, ast.Call) and getattr(node.func, "id", "") == "require" and len(node.args) > 1:
                    msg = "AssertionError(" + ast.unparse(node.args[1]) + ")"
                if msg is None:
                    continue
                lit = re.findall(r"[\"']([^\"'{}]{6,})", msg)
                stem = (lit[0][:24] if lit else "").strip()
                reached = bool(stem) and stem.split("{")[0][:18] in seen
                sites.append({"site": f"{cls.__name__}.{nm}", "raise": msg[:90], "reached_by_some_path": reached})
    return {"rejection_sites": sites, "reached": sum(1 for s in sites if s["reached_by_some_path"]), "total": len(sites)}
