"""C04 -- a rejected operation leaves wallet, positions, order book and action log intact."""
from decimal import Decimal

from ..harness import Scenario

D = Decimal
META = {
    "level": "model_checking",
    "level_text": "Bounded symbolic model checking, one inductive step: every public write operation of every market is run on the real "
    "classes from an arbitrary valid pre-state (balances, indices, prices, vault fields, order-book sizes and arguments symbolic); on "
    "every feasible rejecting path z3 proves component-wise that wallet, positions, visible order book and action log equal "
    "their pre-call terms. Each distinct rejection (exception type + message stem) is a separate obligation group.",
    "bounds": [
        "one operation from a symbolic pre-state (induction over histories), pre-state shapes listed in vf/models/*",
        "amounts in [0, 1e10], Aave indices in [1, 4], prices in [1e-3, 1e5]; negative amounts are outside the claim",
    ],
    "outside": ["rejections inside the end-of-bar liquidation loops (C12/C14)", "negative argument values", "Decimal rounding below 1e-30 relative"],
    "assumptions": ["Decimal/float modelled as exact reals (DESIGN 6.1)", "Aave pre-states installed as raw scaled balances (all reachable via supply/borrow at an earlier row)"],
}


def scenarios(tier):
    from ..models import aave_c04

    out = []
    out += aave_c04.scenarios(tier)
    for modname in ("uni_c04", "deribit_c04", "squeeth_c04", "gmx_c04"):
        try:
            mod = __import__(f"vf.models.{modname}", fromlist=["scenarios"])
        except ImportError:
            continue
        out += mod.scenarios(tier)
    return out
