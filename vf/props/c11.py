"""C11 -- Aave borrow/withdraw limits and risk figures follow the v3 definitions."""
from decimal import Decimal

from ..harness import Scenario
from ..models.aave import warm_views, SHADOWS, SHAPES_QUICK, SHAPES_THOROUGH, sym_portfolio
from ..models.aave_ops import apply_op, op_targets
from ..symx import ite, sand, sor, snot, smax, is_sym

D = Decimal
META = {
    "level": "model_checking",
    "level_text": "Bounded symbolic model checking of the real AaveV3Market: from arbitrary portfolios (scaled balances, both indices and price "
    "per token symbolic) each limit-bearing operation and helper is executed; on accepting paths z3 proves the v3 limit (LTV-weighted "
    "collateral covers all debt / health factor >= 1) recomputed from raw state by an oracle written from the Aave definitions, on "
    "rejecting paths it proves the request was not inside the limit with margin; reported HF, max-LTV and threshold are proved equal "
    "to the definitions; helper amounts are proved accepted, bounded by the supply and tight.",
    "bounds": ["portfolio shapes of <= 3 tokens from a risk table with distinct LTV/threshold/bonus and disabled collateral/borrow flags", "scaled amounts in [1e-9,1e9], indices [1,4], prices [1e-3,1e5], requests in [0,1e10]", "margin for the completeness side 1e-9 relative"],
    "outside": ["e-mode / isolation mode (not modelled by demeter)", "histories other than: [views read] -> [a new bar with other indices and prices] -> one or two limit-bearing operations", "requests within 1e-9 relative of a limit", "the `ltv` view (the property names HF, max-LTV and threshold only)"],
    "assumptions": ["Decimal modelled as exact reals"],
}
REL = D("1e-25")
MARGIN = D("1e-9")


def _flags(w, n):
    return w.risk[n]


def views(ctx):
    w = sym_portfolio(ctx, ctx.p["shape"])
    m = w.market
    t = w.o_totals(w.raw())
    hf, mx, th = m.health_factor, m.max_ltv, m.liquidation_threshold
    ctx.outcome("views")
    has_debt = any(d for (_, d) in ctx.p["shape"].values())
    has_coll = any(s == "C" for (s, _) in ctx.p["shape"].values())
    items = []
    if has_debt:
        items.append(("health_factor == threshold-weighted collateral / total debt", ctx.close(hf * t["B"], t["LT"], rel=REL)))
        items.append(("CANARY health factor is ltv-weighted", ctx.close(hf * t["B"], t["LV"], rel=REL)))
    else:
        items.append(("health_factor is infinite without debt", not is_sym(hf) and hf == D("inf")))
    if has_coll:
        items.append(("max_ltv == ltv-weighted collateral / collateral", ctx.close(mx * t["C"], t["LV"], rel=REL)))
        items.append(("liquidation_threshold == threshold-weighted collateral / collateral", ctx.close(th * t["C"], t["LT"], rel=REL)))
    for n, c in items:
        ctx.check(n, c)
    ctx.check("total_supply_value equals sum scaled x index x price", ctx.close(m.total_supply_value, t["S"], rel=REL))
    ctx.check("total_collateral_value equals collateral-flagged supplies", ctx.close(m.total_collateral_value, t["C"], rel=REL))
    ctx.check("total_borrows_value equals sum scaled x borrow index x price", ctx.close(m.total_borrows_value, t["B"], rel=REL))


def _views_match(ctx, w, st, when):
    """the reported risk figures equal the Aave v3 definitions evaluated on the raw state (whatever happened before)"""
    m = w.market
    t = w.o_totals(st)
    items = []
    hf = m.health_factor
    if not is_sym(hf) and hf == D("inf"):
        items.append((f"{when}: health_factor is infinite only without debt", t["B"] == 0))
    else:
        items.append((f"{when}: health_factor == threshold-weighted collateral / total debt", ctx.close(hf * t["B"], t["LT"], rel=REL)))
    if any(c for (_, c) in st["sup"].values()):
        mx, th = m.max_ltv, m.liquidation_threshold

        def nan(x):
            return not is_sym(x) and isinstance(x, D) and not x.is_finite()

        # with zero collateral value (a zero-amount supply) the ratios are undefined (the code reports NaN / 0): nothing to compare
        items.append((f"{when}: max_ltv == ltv-weighted collateral / collateral", sor(t["C"] == 0, False if nan(mx) else ctx.close(mx * t["C"], t["LV"], rel=REL))))
        items.append((f"{when}: liquidation_threshold == threshold-weighted collateral / collateral", sor(t["C"] == 0, False if nan(th) else ctx.close(th * t["C"], t["LT"], rel=REL))))
    items.append((f"{when}: total collateral / debt values equal the definitions", sand(ctx.close(m.total_collateral_value, t["C"], rel=REL), ctx.close(m.total_borrows_value, t["B"], rel=REL))))
    ctx.check_all(items)


def limits(ctx):
    """one limit-bearing operation: soundness on accept, completeness (with margin) on reject, HF>=1 preserved; the risk
    figures reported afterwards equal the definitions; optionally a second borrow in the same bar under the same obligations"""
    p = ctx.p
    w = sym_portfolio(ctx, p["shape"])
    if p.get("warm"):
        warm_views(w.market)
        w.market.borrows, w.market.supplies  # the derived dict views too
    if p.get("new_bar"):
        # a new bar (other indices and prices) after the views were read: the limits must be those of the bar that is current
        li = {n: ctx.dec(f"li2_{n}", 1, 5) for n in w.names}
        bi = {n: ctx.dec(f"bi2_{n}", 1, 5) for n in w.names}
        pr = {n: ctx.dec(f"p2_{n}", D("0.001"), 10**5) for n in w.names}
        w.set_row(li, bi, pr)
    ok, label = _limit_step(ctx, w, p["op"], p["tok"], p["tok2"], "")
    ctx.outcome("accepted" if ok else "rejected:" + label)
    _views_match(ctx, w, w.raw(), f"after {p['op']} [{'accepted' if ok else 'rejected'}]")
    if p.get("then"):
        ok2, label2 = _limit_step(ctx, w, p["then"], p["tok_then"], None, "_2")
        ctx.outcome("then:" + ("accepted" if ok2 else "rejected:" + label2))
        _views_match(ctx, w, w.raw(), f"after a second operation ({p['then']}) [{'accepted' if ok2 else 'rejected'}]")


def _limit_step(ctx, w, op, tok, tok2, suffix):
    st0 = w.raw()
    t0 = w.o_totals(st0)
    if suffix:
        from ..models.nv import _aave_second

        a2 = None
        try:
            amt2 = ctx.dec("amt" + suffix, 0, 10**10)
            a2 = amt2
            t = w.tok(tok)
            {"borrow": w.market.borrow, "withdraw": w.market.withdraw}[op](t, amt2)
            ok, label, args = True, "accepted", dict(amount=amt2)
        except Exception as e:
            from ..models.aave_ops import stem

            ok, label, args = False, stem(e), dict(amount=a2)
    else:
        ok, label, args = apply_op(ctx, w, op, tok, tok2)
    st1 = w.raw()
    t1 = w.o_totals(st1)
    tag = op + (" (second operation in the bar)" if suffix else "")
    debt_after = bool(st1["bor"])
    # the code deliberately clamps scaled residues below 1e-18 to zero (DESIGN 6.2): allow that much value
    dust = D("2e-18") * w.row["li"][tok] * w.price[tok]
    if ok:
        if op == "borrow":
            ctx.check(f"{tag} accepted => ltv-weighted collateral covers all debt incl. the new one", t1["LV"] >= t1["B"] * (1 - REL))
            ctx.check(f"{tag} accepted => token is borrowable", w.risk[tok]["borrow"])
            if not suffix:
                ctx.check("CANARY borrow leaves debt unchanged", ctx.close(t1["B"], t0["B"], rel=REL))
        reduces = (op == "withdraw" and st0["sup"][tok][1]) or (op == "change_collateral" and not args["collateral"] and st0["sup"][tok][1])
        if reduces and debt_after:
            ctx.check(f"{tag} accepted => health factor afterwards >= 1", t1["LT"] + dust >= t1["B"] * (1 - REL))
        if debt_after:
            # every accepted user operation from a healthy account leaves it healthy
            ctx.check(f"{tag} accepted from HF>=1 => HF>=1 afterwards", sor(t0["LT"] < t0["B"], t1["LT"] + dust >= t1["B"] * (1 - REL)))
    else:
        amt = args.get("amount")
        if op == "borrow" and amt is not None:
            inside = sand(
                w.risk[tok]["borrow"],
                amt > 0,
                t0["C"] > 0,
                t0["LV"] > 0,
                t0["LT"] > t0["B"],
                (t0["B"] + amt * w.price[tok]) * (1 + MARGIN) <= t0["LV"],
            )
            ctx.check(f"{tag} inside the limit with margin is accepted", snot(inside))
        if op == "withdraw" and amt is not None and tok in st0["sup"]:
            held = w.o_supply_amount(st0, tok)
            is_c = st0["sup"][tok][1]
            new_lt = t0["LT"] - (amt * w.price[tok] * w.risk[tok]["lt"] if is_c else 0)
            inside = sand(amt > 0, amt * (1 + MARGIN) <= held, sor(not st0["bor"], new_lt >= t0["B"] * (1 + MARGIN)))
            ctx.check(f"{tag} inside the limit with margin is accepted", snot(inside))
        if op == "change_collateral" and tok in st0["sup"]:
            c = args["collateral"]
            if c:
                ctx.check("enabling collateral is accepted", False)
            else:
                is_c = st0["sup"][tok][1]
                new_lt = t0["LT"] - (w.o_supply_amount(st0, tok) * w.price[tok] * w.risk[tok]["lt"] if is_c else 0)
                inside = sor(not st0["bor"], new_lt >= t0["B"] * (1 + MARGIN))
                ctx.check("disabling collateral inside the limit with margin is accepted", snot(inside))
    return ok, label


def helpers(ctx):
    """max-borrow / max-withdraw helper amounts: accepted, <= supplied, and tight"""
    p = ctx.p
    w = sym_portfolio(ctx, p["shape"])
    m = w.market
    tok = p["tok"]
    t = w.tok(tok)
    st0 = w.raw()
    t0 = w.o_totals(st0)
    ctx.assume(t0["LT"] >= t0["B"])  # healthy account
    which = p["helper"]
    if which == "max_borrow":
        ctx.assume(sand(t0["C"] > 0, t0["LT"] > t0["B"] * (1 + MARGIN), t0["LV"] > t0["B"]))  # some borrowing capacity left
        amt = m.get_max_borrow_amount(t)
        true_limit = (t0["LV"] - t0["B"]) / w.price[tok]
        ctx.check("max borrow helper never exceeds the true limit", amt <= true_limit * (1 + REL) + D("1e-30"))
        ctx.check("max borrow helper is within 1% of the true limit (web-UI convention)", ctx.close(amt, true_limit * D("0.99"), rel=REL, abs_=D("1e-30")))
        mode = ctx.choose("mode", 2)
        if mode == 0:
            ctx.assume(amt > D("1e-9"))
            try:
                m.borrow(t, amt)
                ctx.outcome("helper-accepted")
            except Exception as e:
                ctx.outcome("helper-rejected")
                ctx.check("max borrow helper amount is itself accepted", not w.risk[tok]["borrow"])
        else:
            ctx.assume(true_limit > D("1e-9"))
            try:
                m.borrow(t, true_limit * (1 + MARGIN) + D("1e-9"))
                ctx.outcome("beyond-accepted")
                ctx.check("borrow beyond the limit is rejected", False)
            except Exception as e:
                ctx.outcome("beyond-rejected")
    else:
        ctx.assume(tok in st0["sup"])
        held = w.o_supply_amount(st0, tok)
        amt = m.get_max_withdraw_amount(t)
        ctx.observe("max_withdraw", amt)
        ctx.check("max withdraw helper never exceeds the supplied amount", amt <= held * (1 + REL))
        is_c = st0["sup"][tok][1]
        mode = ctx.choose("mode", 2)
        if mode == 0:
            ctx.assume(amt > D("1e-9"))
            a = ite(amt <= held, amt, held) * (1 - D("1e-12"))  # the helper's own amount, one part in 1e12 inside (rounding domain)
            try:
                m.withdraw(t, a)
                ctx.outcome("helper-accepted")
            except Exception as e:
                ctx.outcome("helper-rejected")
                ctx.check("max withdraw helper amount is itself accepted", False)
        else:
            if is_c and st0["bor"]:
                # true limit: largest x with LT - x*p*lt >= B
                lim = (t0["LT"] - t0["B"]) / (w.price[tok] * w.risk[tok]["lt"])
                ctx.assume(lim * (1 + MARGIN) + D("1e-9") <= held)
                try:
                    m.withdraw(t, lim * (1 + MARGIN) + D("1e-9"))
                    ctx.outcome("beyond-accepted")
                    ctx.check("withdraw beyond the health-factor limit is rejected", False)
                except Exception:
                    ctx.outcome("beyond-rejected")
                ctx.check("max withdraw helper reaches the health-factor limit", amt >= smax(ite(lim <= held, lim, held), 0) * (1 - MARGIN) - D("1e-9"))
            else:
                ctx.check("without debt (or for non-collateral) everything can be withdrawn", ctx.close(amt, held, rel=REL))


def scenarios(tier):
    shapes = SHAPES_QUICK if tier == "quick" else SHAPES_THOROUGH
    out = []
    for sn, shape in shapes.items():
        has_debt = any(d for (_, d) in shape.values())
        out.append(Scenario(f"views/{sn}", views, params=dict(shape=shape), shadows=SHADOWS, entry=("health_factor", "max_ltv", "liquidation_threshold"), canary="CANARY health factor is ltv-weighted" if has_debt else None))
        for op in ("borrow", "withdraw", "change_collateral", "supply", "repay", "repay_coll"):
            for tok, tok2 in op_targets(shape, op):
                if op == "repay_coll" and tier == "quick" and sn not in ("A", "B"):
                    continue
                out.append(
                    Scenario(
                        f"limits/{sn}/{op}/{tok}{'/' + tok2 if tok2 else ''}",
                        limits,
                        params=dict(shape=shape, op=op, tok=tok, tok2=tok2),
                        shadows=SHADOWS,
                        entry=(f"AaveV3Market.{op.replace('repay_coll', 'repay')}",),
                        max_paths=800,
                    )
                )
        # two limit-bearing operations in the same bar (the second sees whatever caches the first one left), views read beforehand
        if sn in ("A", "B") or tier != "quick":
            debts = [n for n in shape if shape[n][1]] or list(shape)[:1]
            colls = [n for n in shape if shape[n][0] == "C"]
            for first, tok1 in [("borrow", debts[0])] + ([("withdraw", colls[0])] if colls else []):
                for then, tok_then in [("borrow", debts[0])] + ([("withdraw", colls[0])] if colls else []):
                    out.append(Scenario(f"limits2/{sn}/{first}:{tok1}+{then}:{tok_then}", limits, params=dict(shape=shape, op=first, tok=tok1, tok2=None, then=then, tok_then=tok_then, warm=True), shadows=SHADOWS, entry=(f"AaveV3Market.{first}", f"AaveV3Market.{then}", "health_factor", "max_ltv"), max_paths=1200))
        # another Aave market with other risk parameters has been used in the same process before
        if sn in ("A", "B") or tier != "quick":
            out.append(Scenario(f"views/{sn}/another_aave_market_in_the_process", views, params=dict(shape=shape, neighbour_market=True), shadows=SHADOWS, entry=("health_factor", "max_ltv", "liquidation_threshold")))
            debts = [n for n in shape if shape[n][1]] or list(shape)[:1]
            colls = [n for n in shape if shape[n][0] == "C"]
            for op, tok in [("borrow", debts[0])] + [("withdraw", c) for c in colls[:1]]:
                out.append(Scenario(f"limits/{sn}/{op}/{tok}/another_aave_market_in_the_process", limits, params=dict(shape=shape, op=op, tok=tok, tok2=None, neighbour_market=True), shadows=SHADOWS, entry=(f"AaveV3Market.{op}",), max_paths=800))
        # views read, then a NEW BAR with other prices and indices, then a limit-bearing operation
        if sn in ("A", "B", "C") or tier != "quick":
            debts = [n for n in shape if shape[n][1]] or list(shape)[:1]
            colls = [n for n in shape if shape[n][0] == "C"]
            for op, tok in [("borrow", n) for n in (debts[:1] + [x for x in shape if x not in debts][:1])] + [("withdraw", c) for c in colls[:1]] + [("change_collateral", c) for c in colls[:1]]:
                out.append(Scenario(f"limits_after_new_bar/{sn}/{op}/{tok}", limits, params=dict(shape=shape, op=op, tok=tok, tok2=None, warm=True, new_bar=True), shadows=SHADOWS, entry=(f"AaveV3Market.{op}", "set_market_status", "health_factor", "max_ltv"), max_paths=1200))
        for tok in shape:
            has_coll = any(s == "C" for (s, _) in shape.values())
            if has_coll:
                out.append(Scenario(f"helpers/{sn}/max_borrow/{tok}", helpers, params=dict(shape=shape, tok=tok, helper="max_borrow"), shadows=SHADOWS, entry=("get_max_borrow_amount", "borrow")))
            if shape[tok][0]:
                out.append(Scenario(f"helpers/{sn}/max_withdraw/{tok}", helpers, params=dict(shape=shape, tok=tok, helper="max_withdraw"), shadows=SHADOWS, entry=("get_max_withdraw_amount", "withdraw")))
    return out
