"""C19 -- strategies run by the backtest manager do not influence one another."""
import json
import os
import subprocess
import sys
import tempfile
from decimal import Decimal

import pandas as pd

from ..harness import Scenario, VERIF_DIR, REPO
from ..models import bars
from ..symx import ite, sand, sor, snot, is_sym

D = Decimal
META = {
    "level": "model_checking",
    "level_text": "Bounded symbolic model checking of the real BacktestManager.run in its in-process path (threads = 1): two or three scripted strategies "
    "(a liquidity provider that keeps its position, a notification-driven trader, an idle one) share one StrategyConfig over a real "
    "UniLpMarket; the traded amounts and whether each strategy trades at all are symbolic. z3 proves that each strategy's captured "
    "per-bar net values, balances, final positions, action list and notification count are term-equal to those of the same "
    "strategy run alone on a fresh configuration, for every order of the strategies. The forked path (worker processes) cannot carry "
    "solver terms across the process boundary: it is exercised only in the witness runs (concrete solver models, 3 strategies on 2 "
    "workers, in a fresh interpreter) whose comparison is reported as a WITNESS-only check.",
    "bounds": ["<= 3 strategies, 4 bars, one Uniswap market; amounts in [1e-3, 2] ETH / [1, 3000] USDC", "worker counts: 1 (solver-decided); 2 workers with 3 strategies only in witness runs"],
    "outside": ["the forked Pool path and scheduler interleavings as a solver-decided claim (process boundary)", "market mixes other than one Uniswap pool, and one Uniswap pool + an hourly option market with capped / plain buyers and sellers"],
    "assumptions": ["strategies are deterministic functions of their snapshots and notifications"],
}
SHADOWS = bars.ACTUATOR_SHADOWS + ("demeter.core.backtest",)
N = 4


OPT = "ETH-29SEP23-1700-C"


def _config_and_data(deribit=False):
    from demeter import TokenInfo, MarketInfo
    from demeter.core import StrategyConfig, BacktestData, BacktestConfig
    from demeter.uniswap import UniLpMarket, UniV3Pool
    from demeter.uniswap.helper import _add_statistic_column, get_price_from_data

    usdc, eth = TokenInfo("USDC", 6), TokenInfo("ETH", 18)
    pool = UniV3Pool(usdc, eth, 0.05, usdc)
    df = bars.uni_frame(N)
    _add_statistic_column(df, pool)
    market = UniLpMarket(MarketInfo("uni"), pool)
    markets, frames = [market], {market.market_info: df}
    assets = {usdc: D(10000), eth: D(5)}
    if deribit:
        # an hourly option market in the shared configuration; its frame (with nested order-book lists) is shared data
        from .c05 import _deribit_market

        dm = _deribit_market(bars.START, N)
        ddf = dm.data
        for h in ddf.index.get_level_values(0).unique():
            ddf.at[(h, OPT), "asks"] = [[0.0201, 500.0], [0.0205, 5000.0]]
        dm2 = type(dm)(dm.market_info, type(dm).ETH)
        markets.append(dm2)
        frames[dm2.market_info] = ddf
        assets[type(dm).ETH] = D(500)
    cfg = StrategyConfig(assets=assets, markets=markets)
    data = BacktestData(data=frames, prices=get_price_from_data(df, pool))
    return cfg, data, BacktestConfig(print_actions=False, print_result=False, interval="1min")


def _strategy_base():
    from demeter import Strategy

    return Strategy


class _Mixin:
    """shared behaviour of the scripted strategies (module-level classes so that the forked path can pickle them)"""

    def setup(self, kind, params, sink):
        self.kind, self.params, self.sink = kind, params, sink
        self.n_notify = 0
        self.pending = None
        return self

    def notify(self, action):
        self.n_notify += 1
        if self.kind == "trader" and type(action).__name__ == "BuyAction" and self.n_notify == 1:
            self.pending = action.amount / 2

    def before_bar(self, snapshot):
        if self.kind == "trader" and self.pending is not None:
            self.broker.markets.default.sell(self.pending)
            self.pending = None

    def on_bar(self, snapshot):
        prm = self.params
        if self.kind == "lp" and snapshot.row_id == 0 and prm["active"]:
            self.broker.markets.default.add_liquidity_by_tick(199900, 200100, prm["base"], prm["quote"])
        if self.kind == "trader" and snapshot.row_id == 1 and prm["active"]:
            self.broker.markets.default.buy(prm["base"])
        if self.kind in ("opt_capped_seller", "opt_plain_seller") and snapshot.row_id == 0 and prm["active"]:
            # buys a holding and sells part of it back in the same bar, with / without the mark-price cap: the sale walks the BID lists
            dm = [m for m in self.broker.markets.values() if type(m).__name__ == "DeribitOptionMarket"][0]
            dm.deposit(D(400))
            try:
                dm.buy(OPT, prm["contracts"])
                if self.kind == "opt_capped_seller":
                    dm.sell(OPT, prm["contracts"], max_mark_price_multiple=D("1.2"))
                else:
                    dm.sell(OPT, prm["contracts"])
            except Exception as e:
                self.rejected = type(e).__name__
        if self.kind in ("opt_capped", "opt_plain") and snapshot.row_id == 0 and prm["active"]:
            dm = [m for m in self.broker.markets.values() if type(m).__name__ == "DeribitOptionMarket"][0]
            dm.deposit(D(400))
            try:
                if self.kind == "opt_capped":
                    dm.buy(OPT, prm["contracts"], max_mark_price_multiple=D("1.2"))
                else:
                    dm.buy(OPT, prm["contracts"])
            except Exception as e:
                self.rejected = type(e).__name__

    def finalize(self):
        mk = self.broker.markets.default
        dms = [m for m in self.broker.markets.values() if type(m).__name__ == "DeribitOptionMarket"]
        self.sink.append(
            dict(
                option_cash=dms[0].balance if dms else 0,
                option_positions=sorted((k, p.amount, p.avg_buy_price) for k, p in dms[0].positions.items()) if dms else [],
                rejected=getattr(self, "rejected", None),
                kind=self.kind,
                net=[s.net_value for s in self.account_status],
                bal=[sorted(((k.name, v) for k, v in s.asset_balances.items())) for s in self.account_status],
                positions=sorted(((k.lower_tick, k.upper_tick, p.liquidity, p.pending_amount0, p.pending_amount1) for k, p in mk.positions.items())),
                n_actions=len(self.actions),
                n_notify=self.n_notify,
                rows=len(self.account_status_df.index),
            )
        )


_SCRIPTED = None


def _scripted_class():
    global _SCRIPTED
    if _SCRIPTED is None:
        from demeter import Strategy

        _SCRIPTED = type("ScriptedStrategy", (_Mixin, Strategy), {"__module__": __name__})
        globals()["ScriptedStrategy"] = _SCRIPTED
    return _SCRIPTED


def _make_strategy(kind, params, sink):
    return _scripted_class()().setup(kind, params, sink)


class FileSink:
    def __init__(self, path):
        self.path = path

    def append(self, rec):
        with open(self.path, "w") as f:
            json.dump({k: str(v) for k, v in rec.items()}, f)


def _run_manager(kinds, params, threads=1, deribit=False):
    from demeter.core import BacktestManager

    cfg, data, bcfg = _config_and_data(deribit)
    sink = []
    strategies = [_make_strategy(k, params[k], sink) for k in kinds]
    import contextlib, io

    with contextlib.redirect_stdout(io.StringIO()), contextlib.redirect_stderr(io.StringIO()):
        BacktestManager(config=cfg, data=data, strategies=strategies, backtest_config=bcfg, threads=threads).run()
    return sink


def _equal_records(ctx, label, a, b):
    items = [(f"{label}: same number of bars", len(a["net"]) == len(b["net"]) and a["rows"] == b["rows"])]
    for i, (x, y) in enumerate(zip(a["net"], b["net"])):
        items.append((f"{label}: per-bar net value equals that of running alone", x == y))
    for x, y in zip(a["bal"], b["bal"]):
        items.append((f"{label}: per-bar wallet balances equal those of running alone", len(x) == len(y) and sand(*[sand(p[0] == q[0], p[1] == q[1]) for p, q in zip(x, y)])))
    items.append((f"{label}: final positions equal those of running alone", len(a["positions"]) == len(b["positions"]) and sand(*[sand(*[u == v for u, v in zip(p, q)]) for p, q in zip(a["positions"], b["positions"])])))
    items.append((f"{label}: action list and notifications equal those of running alone", a["n_actions"] == b["n_actions"] and a["n_notify"] == b["n_notify"]))
    items.append((f"{label}: option account (cash, positions, average prices, rejections) equals that of running alone", sand(a["option_cash"] == b["option_cash"], a["rejected"] == b["rejected"], len(a["option_positions"]) == len(b["option_positions"]), *[sand(p[0] == q[0], p[1] == q[1], p[2] == q[2]) for p, q in zip(a["option_positions"], b["option_positions"])])))
    ctx.check_all(items)


def isolation(ctx):
    p = ctx.p
    kinds = p["kinds"]
    bars.quiet_actuator_module()
    params = {}
    for k in sorted(set(kinds)):
        params[k] = dict(active=ctx.flag(f"{k}_trades"), base=ctx.dec(f"{k}_base", D("0.001"), 2), quote=ctx.dec(f"{k}_quote", 1, 3000))
        if k.startswith("opt_"):
            from ..models.deribit import _dec

            params[k]["contracts"] = _dec(ctx.int_(f"{k}_contracts", 1, 3000))
    der = bool(p.get("deribit"))
    try:
        together = _run_manager(kinds, params, deribit=der)
        alone = {k: _run_manager([k], params, deribit=der)[0] for k in set(kinds)}
    except Exception as e:
        ctx.outcome("raised:" + type(e).__name__)
        ctx.check(f"the backtest manager runs the strategies without an exception (got {type(e).__name__})", False, detail=str(e)[:300])
        return
    ctx.outcome("ran:" + ",".join(f"{k}={'1' if params[k]['active'] else '0'}" for k in kinds))
    ctx.check("every strategy reports a result", len(together) == len(kinds))
    for pos, (k, rec) in enumerate(zip(kinds, together)):
        _equal_records(ctx, f"strategy #{pos + 1} ({k}) of {'+'.join(kinds)}", rec, alone[k])
    if not ctx.sym and p.get("forked"):
        ok, why = _forked_witness(kinds, params)
        ctx.check("WITNESS forked path (2 workers): every strategy's result equals that of running alone", ok, detail=why)
    ctx.check("CANARY no strategy ever trades", sand(*[r["n_actions"] == 0 for r in together]))


def _forked_witness(kinds, params):
    """fresh interpreter: BacktestManager(threads=2) over the same strategies; results come back through files"""
    payload = json.dumps({"kinds": list(kinds), "params": {k: {a: str(b) for a, b in v.items()} for k, v in params.items()}})
    code = (
        "import sys, json; sys.path.insert(0, %r); sys.path.insert(0, %r)\n"
        "from vf.props import c19\n"
        "print(json.dumps(c19._forked_main(json.loads(sys.stdin.read()))))\n" % (VERIF_DIR, REPO)
    )
    env = dict(os.environ)
    env["PYTHONPATH"] = VERIF_DIR + os.pathsep + REPO
    r = subprocess.run([sys.executable, "-c", code], input=payload, capture_output=True, text=True, timeout=300, env=env)
    if r.returncode != 0:
        return False, "forked run failed: " + r.stderr[-400:]
    out = json.loads(r.stdout.strip().splitlines()[-1])
    return out["ok"], out["why"]


def _forked_main(payload):
    import logging

    logging.disable(logging.WARNING)
    kinds = payload["kinds"]
    params = {k: dict(active=v["active"] == "True", base=D(v["base"]), quote=D(v["quote"])) for k, v in payload["params"].items()}
    tmp = tempfile.mkdtemp(prefix="c19_")

    from demeter.core import BacktestManager

    cfg, data, bcfg = _config_and_data()
    strategies = [_make_strategy(k, params[k], FileSink(os.path.join(tmp, f"s{i}.json"))) for i, k in enumerate(kinds)]
    BacktestManager(config=cfg, data=data, strategies=strategies, backtest_config=bcfg, threads=2).run()
    why = []
    for i, k in enumerate(kinds):
        path = os.path.join(tmp, f"s{i}.json")
        if not os.path.exists(path):
            why.append(f"strategy #{i + 1} ({k}) reported nothing")
            continue
        got = json.load(open(path))
        solo = _run_manager([k], params)[0]
        exp = {kk: str(v) for kk, v in solo.items()}
        if got != exp:
            diff = [kk for kk in exp if got.get(kk) != exp[kk]]
            why.append(f"strategy #{i + 1} ({k}) differs from running alone in {diff}")
    import shutil

    shutil.rmtree(tmp, ignore_errors=True)
    return {"ok": not why, "why": "; ".join(why)}


def scenarios(tier):
    out = []
    kw = dict(shadows=SHADOWS, nlsat=False, max_paths=400, time_budget_s=400, witness_cap=8)
    orders = [("lp", "idle"), ("idle", "lp"), ("lp", "trader"), ("trader", "lp"), ("trader", "idle", "lp"), ("lp", "lp", "idle")]
    if tier != "quick":
        orders += [("lp", "trader", "idle"), ("trader", "trader"), ("lp", "lp"), ("idle", "trader", "lp")]
    der_shadows = tuple(dict.fromkeys(SHADOWS + ("demeter.deribit.market", "demeter.deribit.helper", "demeter.deribit._typing")))
    for ks in (("opt_capped", "opt_plain"), ("opt_plain", "opt_capped"), ("opt_capped_seller", "opt_plain_seller"), ("opt_plain_seller", "opt_capped_seller")):
        out.append(Scenario("isolation/deribit/" + "+".join(ks), isolation, params=dict(kinds=ks, deribit=True), entry=("BacktestManager.run", "_start", "DeribitOptionMarket.buy", "DeribitOptionMarket.sell"), **dict(kw, shadows=der_shadows)))
    for ks in orders:
        out.append(Scenario("isolation/" + "+".join(ks), isolation, params=dict(kinds=ks, forked=len(ks) == 3), entry=("BacktestManager.run", "_start", "Broker.add_market", "Actuator.run"), canary="CANARY no strategy ever trades", **kw))
    return out
