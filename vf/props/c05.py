"""C05 -- each bar runs once, in order, with a fixed phase order; logs align with bars."""
from datetime import datetime, timedelta
from decimal import Decimal

import pandas as pd

from ..harness import Scenario
from ..models import bars
from ..symx import ite, sand, sor, snot, is_sym

D = Decimal
META = {
    "level": "model_checking",
    "level_text": "Bounded symbolic model checking of the real Actuator.run: a scripted strategy whose decisions (issue an operation in before_bar / a trigger / "
    "on_bar / after_bar / inside notify, per bar) are symbolic Booleans and whose amounts are symbolic runs over real markets whose "
    "update / set_market_status are observed by wrapping the instances; every distinguishable script within the bound is a path "
    "(an oversized sell forks into accepted / rejected by the solver). On every path the recorded hook trace is compared with the "
    "grammar (refresh all markets - before_bar - triggers - on_bar - second refresh of exactly the markets written to - update of "
    "all markets - after_bar - notify of this bar's actions) once per bar in index order, every accepted operation has exactly one "
    "action stamped with the bar in which it ran and delivered exactly once at the end of that bar, rejected operations leave no "
    "action, and the account history has one row per bar with that bar's timestamp and prices.",
    "bounds": ["N in {2, 3} bars (quick) / up to 5 (thorough); <= 1 operation per phase per bar; one optional operation issued from inside notify", "market mixes: Uniswap alone; Uniswap + Aave; minutely Uniswap + hourly Deribit with the hour boundary inside the window (Deribit frame with more rows than there are bars); 1-minute data resampled to 5-minute bars"],
    "outside": ["longer histories", "save_result / printing", "operations issued from inside notify beyond the first one"],
    "assumptions": ["the property is about control flow: the solver's share is the feasibility of each script (accepted / rejected operations) and the symbolic amounts carried into the action records"],
}
SHADOWS = tuple(dict.fromkeys(bars.ACTUATOR_SHADOWS + ("demeter.deribit.market", "demeter.deribit.helper", "demeter.deribit._typing", "demeter.aave.market", "demeter.aave.core", "demeter.aave.helper", "demeter.aave._typing")))
PHASES = ("before", "trigger", "on", "after")


def _deribit_market(start, n_bars):
    from demeter import MarketInfo, MarketTypeEnum
    from demeter.deribit import DeribitOptionMarket
    from .c16 import _deribit_frame

    first = pd.Timestamp(start).floor("1h")
    last = (pd.Timestamp(start) + pd.Timedelta(minutes=n_bars)).floor("1h")
    hours = list(pd.date_range(first, last, freq="1h"))
    exp = first + pd.Timedelta("7D")
    ins = [dict(name=f"ETH-29SEP23-{k}-C", type="CALL", strike=k, expiry=exp, underlying=1650.0, mark=0.02) for k in (1500, 1600, 1700, 1800, 1900)]
    return DeribitOptionMarket(MarketInfo("deribit", MarketTypeEnum.deribit_option), DeribitOptionMarket.ETH, data=_deribit_frame(hours, ins))


def trace_run(ctx):
    from demeter import Strategy, TokenInfo
    from demeter.strategy import trigger as T
    from demeter.uniswap.helper import get_price_from_data

    p = ctx.p
    n, mix = p["bars"], p["mix"]
    factor = p.get("resample_factor", 1)
    start = datetime(2023, 9, 22, 6, 58) if mix == "uni+deribit" else bars.START
    if p.get("gap"):
        # the market history misses one minute while the (independent) price table has every minute: bars are the market's rows
        full, usdc, eth, pool = bars.make_uni(n + 1, "1min", start=start)
        price_src = full
        uni, usdc, eth, pool = bars.make_uni(n, "1min", start=start, frame=full.data.drop(full.data.index[1]).copy())
    else:
        uni, usdc, eth, pool = bars.make_uni(n * factor, "1min", start=start)
        price_src = uni
    markets = [uni]
    if mix == "uni+deribit":
        markets.append(_deribit_market(start, n * factor))
    elif mix == "uni+uni":
        uni2, _, _, _ = bars.make_uni(n * factor, "1min", start=start, name="uni2")
        markets.append(uni2)
    prices, quote = get_price_from_data(price_src.data, pool)
    a = bars.make_actuator(markets, prices, quote, {usdc: D(100000), eth: D(10)})
    if factor > 1:
        a.interval = f"{factor}min"
    events = []
    # observe the markets by wrapping the instances (no repo change)
    for mk in markets:
        def wrap(mk=mk):
            o_set, o_upd = mk.set_market_status, mk.update

            def set_(ms, price):
                events.append(("refresh", mk.market_info.name, pd.Timestamp(ms.timestamp)))
                return o_set(ms, price)

            def upd():
                events.append(("update", mk.market_info.name, None))
                return o_upd()

            mk.set_market_status, mk.update = set_, upd

        wrap()
    bar_ts = [pd.Timestamp(start) + pd.Timedelta(minutes=factor * i) for i in range(n)]
    if p.get("gap"):
        bar_ts = list(uni.data.index)
    do_op = {(i, ph): ctx.flag(f"op_{i}_{ph}") for i in range(n) for ph in PHASES if not (p.get("light") and ph in ("before", "trigger") and i > 0)}
    big_sell = bool(p.get("sell")) and n > 1
    in_notify = bool(p.get("notify_op"))
    amt = {k: ctx.dec(f"amt_{k[0]}_{k[1]}", D("0.0001"), D("0.01")) for k, v in do_op.items() if v}
    sell_amt = ctx.dec("sell_amount", 2, 30) if big_sell else None
    if big_sell:
        ctx.assume(sor(sell_amt <= 9, sell_amt >= 11))  # an accepted sell leaves ETH for the script's later operations
    ops_log = []  # (bar, phase, accepted, amount)
    state = {"bar": None, "notify_op_done": False}

    lp_ticks = (199980, 200100)

    def op(i, ph):
        if do_op.get((i, ph)):
            if ph in ("trigger", "after"):
                # a write_func operation (sets has_update): the amount recorded is the base amount offered
                uni.add_liquidity_by_tick(lp_ticks[0], lp_ticks[1], D("0.01"), D("15"))  # concrete amounts: the liquidity math is not this property's subject
                ops_log.append((i, ph, True, None))
            elif p.get("deribit_ops") and ph == "on":
                # the option account is funded / drained on ANY minute (deposit and withdraw are not gated by the hourly market being open)
                dm = markets[1]
                if i % 2 == 0 or dm.balance < amt[(i, ph)]:
                    dm.deposit(amt[(i, ph)])
                else:
                    dm.withdraw(amt[(i, ph)])
                ops_log.append((i, ph, True, amt[(i, ph)]))
            else:
                uni.buy(amt[(i, ph)])
                ops_log.append((i, ph, True, amt[(i, ph)]))

    class Script(Strategy):
        def initialize(self):
            self.triggers.append(T.TimeRangeTrigger(T.TimeRange(bar_ts[0].to_pydatetime() - timedelta(days=1), bar_ts[-1].to_pydatetime() + timedelta(days=1)), self.trig))

        def trig(self, snapshot):
            events.append(("trigger", snapshot.row_id, pd.Timestamp(snapshot.timestamp)))
            op(snapshot.row_id, "trigger")

        def before_bar(self, snapshot):
            state["bar"] = snapshot.row_id
            events.append(("before", snapshot.row_id, pd.Timestamp(snapshot.timestamp)))
            op(snapshot.row_id, "before")

        def on_bar(self, snapshot):
            events.append(("on", snapshot.row_id, pd.Timestamp(snapshot.timestamp)))
            op(snapshot.row_id, "on")
            if big_sell and snapshot.row_id == 1:
                try:
                    uni.sell(sell_amt)
                    ops_log.append((1, "on", True, sell_amt))
                except Exception as e:
                    ops_log.append((1, "on", False, sell_amt))

        def after_bar(self, snapshot):
            events.append(("after", snapshot.row_id, pd.Timestamp(snapshot.timestamp)))
            op(snapshot.row_id, "after")

        def notify(self, action):
            events.append(("notify", state["bar"], action))
            if in_notify and not state["notify_op_done"]:
                state["notify_op_done"] = True
                uni.buy(D("0.0002"))
                ops_log.append((state["bar"], "notify", True, D("0.0002")))

    a.strategy = Script()
    try:
        bars.run_quiet(a)
    except Exception as e:
        ctx.outcome("raised:" + type(e).__name__)
        ctx.check(f"the run raises no exception (got {type(e).__name__})", False, detail=str(e)[:300])
        return
    script = "".join("1" if do_op.get((i, ph)) else "0" for i in range(n) for ph in PHASES)
    ctx.outcome(f"script={script},sell={[o[2] for o in ops_log if o[1] == 'on' and o[3] is sell_amt]},notify_op={in_notify}")
    # ---- expected trace
    names = [m.market_info.name for m in markets]
    exp = [("refresh", nm, bar_ts[0]) for nm in names]  # initial snapshot before the strategy is initialised
    accepted = [o for o in ops_log if o[2]]
    for i in range(n):
        exp += [("refresh", nm, bar_ts[i]) for nm in names]
        exp += [("before", i, bar_ts[i]), ("trigger", i, bar_ts[i]), ("on", i, bar_ts[i])]
        wrote = any(o[0] == i and o[1] == "trigger" for o in accepted)  # liquidity operations are the writes (write_func)
        if wrote:
            exp.append(("refresh", "uni", bar_ts[i]))
        exp += [("update", nm, None) for nm in names]
        exp.append(("after", i, bar_ts[i]))
        exp += [("notify", i, None) for o in accepted if o[0] == i]
    got = [(e[0], e[1], e[2] if e[0] != "notify" else None) for e in events]
    ctx.check("each bar runs once, in index order, with the phase order refresh - before_bar - triggers - on_bar - [second refresh iff a write happened] - update - after_bar - notify", got == exp, detail=_first_diff(got, exp))
    # ---- actions
    acts = list(a.actions)
    ctx.check("every accepted operation produced exactly one action record; rejected operations none", len(acts) == len(accepted))
    delivered = [e for e in events if e[0] == "notify"]
    ctx.check("every action is delivered to notify exactly once", len(delivered) == len(acts) and all(sum(1 for e in delivered if e[2] is x) == 1 for x in acts))
    for o, act, ev in zip(accepted, acts, delivered):
        i = o[0]
        ctx.check("an action is stamped with the bar in which it ran", pd.Timestamp(act.timestamp) == bar_ts[i])
        ctx.check("an action is delivered at the end of the bar in which it ran", ev[1] == i and ev[2] is act)
        amount = getattr(act, "amount", None)
        if amount is not None and o[3] is not None:
            ctx.check("the action record carries the operation's amount", amount == o[3])
    # ---- account history
    df = a.account_status_df
    ctx.check("the account history has exactly one row per bar, carrying that bar's timestamp", len(a.account_status) == n and [pd.Timestamp(x.timestamp) for x in a.account_status] == bar_ts and list(df.index) == bar_ts)
    ok = True
    for i in range(n):
        for tok in (usdc.name, eth.name):
            ok = ok and (df[("price", tok)].iloc[i] == a.token_prices.loc[bar_ts[i]][tok])
    ctx.check("each account-history row carries the token prices of its own bar", ok)
    ctx.check("CANARY no action is ever recorded", len(acts) == 0)


def _first_diff(got, exp):
    for k, (g, e) in enumerate(zip(got, exp)):
        if g != e:
            return f"event {k}: got {g} expected {e}"
    return f"length {len(got)} vs {len(exp)}"


def scenarios(tier):
    out = []
    kw = dict(shadows=SHADOWS, nlsat=False, max_paths=3000, time_budget_s=500, witness_cap=10)
    sizes = (2,) if tier == "quick" else (2, 3)
    for mix in ("uni", "uni+uni", "uni+deribit"):
        for n in sizes:
            light = n >= 3 or (tier == "quick" and mix != "uni")
            out.append(Scenario(f"trace/{mix}/n{n}", trace_run, params=dict(bars=n, mix=mix, light=light), entry=("Actuator.run", "Actuator._record_action_list", "Actuator.notify", "Market.set_market_status", "Market.update", "AccountStatus.to_dataframe"), canary="CANARY no action is ever recorded", **kw))
            if mix == "uni" or tier != "quick":
                out.append(Scenario(f"trace/{mix}/n{n}/oversized_sell", trace_run, params=dict(bars=n, mix=mix, light=True, sell=True), entry=("Actuator.run", "UniLpMarket.sell"), **kw))
                out.append(Scenario(f"trace/{mix}/n{n}/op_inside_notify", trace_run, params=dict(bars=n, mix=mix, light=True, notify_op=True), entry=("Actuator.run", "Actuator.notify"), **kw))
    out.append(Scenario("trace/uni+deribit/n3/option_account_funded_on_closed_and_open_minutes", trace_run, params=dict(bars=3, mix="uni+deribit", light=True, deribit_ops=True), entry=("Actuator.run", "DeribitOptionMarket.deposit", "DeribitOptionMarket.withdraw", "Market._record_action"), **kw))
    out.append(Scenario("trace/uni/price_table_denser_than_bars/n3", trace_run, params=dict(bars=3, mix="uni", light=True, gap=True), entry=("Actuator.run", "Actuator._generate_account_status_df"), **kw))
    out.append(Scenario("trace/uni/resampled_5min/n2", trace_run, params=dict(bars=2, mix="uni", resample_factor=5, light=True), entry=("Actuator.run", "Actuator.switch_interval"), canary="CANARY no action is ever recorded", **kw))
    if tier != "quick":
        out.append(Scenario("trace/uni/n5_light", trace_run, params=dict(bars=5, mix="uni", light=True), entry=("Actuator.run",), **kw))
        out.append(Scenario("trace/uni+deribit/n4_hour_boundary", trace_run, params=dict(bars=4, mix="uni+deribit", light=True), entry=("Actuator.run",), **kw))
    return out
