"""C12 -- Aave liquidation: only below HF 1, close factor, exact bonus, wallet untouched."""
from decimal import Decimal

from ..harness import Scenario
from ..models.aave import SHADOWS, sym_portfolio, warm_views
from ..symx import ite, sand, sor, snot, smax, smin, sabs, is_sym

D = Decimal
META = {
    "level": "model_checking",
    "level_text": "Bounded symbolic model checking of the real end-of-bar path AaveV3Market.update -> _liquidate -> _do_liquidate from arbitrary "
    "portfolios with distinct symbolic liquidity/borrow indices and prices per token: z3 proves, on every feasible path, liquidation iff "
    "HF<1, the close-factor cap, seized value == repaid value x (1+bonus of the collateral) at the collateral's own index, net-value "
    "loss == bonus x repaid value, untouched wallet and bystander positions, non-negativity, action records matching state deltas, "
    "termination without exception and each debt visited at most once.",
    "bounds": ["portfolios of <= 2 collaterals x <= 2 debts plus a non-collateral supply (shapes in this file)", "scaled amounts in [1e-9,1e9], indices [1,4] (all distinct symbolic), prices [1e-3,1e5]", "one end-of-bar update from the symbolic portfolio; variant: the same market object has liquidated every debt token of the shape in an earlier (concrete) bar"],
    "outside": ["more than 2x2 tokens", "residues below the 1e-18 clamp of scaled balances"],
    "assumptions": ["Decimal modelled as exact reals", "pre-states installed as raw scaled balances"],
}
REL = D("1e-20")

SHAPES = {
    "1c1d": {"WETH": ("C", False), "DAI": (None, True)},
    "1c1d_self": {"WETH": ("C", True)},
    "1c1d_nc": {"WETH": ("C", False), "WMATIC": ("N", False), "USDT": (None, True)},
    "2c1d": {"WETH": ("C", False), "USDC": ("C", False), "DAI": (None, True)},
    "1c2d": {"WETH": ("C", False), "DAI": (None, True), "USDT": (None, True)},
    "2c2d": {"WETH": ("C", True), "USDC": ("C", False), "DAI": (None, True)},
}
SHAPES.update(
    {
        "2c2d_b": {"WMATIC": ("C", False), "USDC": ("C", True), "DAI": (None, True)},
        "1c3d": {"WETH": ("C", False), "DAI": (None, True), "USDT": (None, True), "USDC": (None, True)},
        "2c1d_nc": {"WETH": ("C", False), "NOBORROW": ("C", False), "NOCOLL": ("N", False), "DAI": (None, True)},
    }
)
QUICK = ("1c1d", "1c1d_self", "1c1d_nc", "2c1d", "1c2d", "2c2d")


def liquidation(ctx):
    p = ctx.p
    w = sym_portfolio(ctx, p["shape"], same_index=p.get("same_index", False))
    m = w.market
    n_prior = 0
    if p.get("prior_liquidation"):
        # an EARLIER bar in which this very market object liquidated every debt token of the shape (concrete, unhealthy at HF 0.97);
        # whatever the market remembers of it must not keep it from liquidating again in the bar under test
        from ..harness import Reject

        sym_state, sym_row = w.raw(), (dict(w.row["li"]), dict(w.row["bi"]), dict(w.price))
        one = {n: D(1) for n in w.names}
        colls = [n for n, (md, _) in p["shape"].items() if md == "C"]
        debts = [n for n, (_, d) in p["shape"].items() if d]
        lt_sum = sum((w.risk[n]["lt"] for n in colls), D(0))
        w.set_row(one, one, one)
        w.install_state({n: (D(1), True) for n in colls}, {n: lt_sum / len(debts) / D("0.97") for n in debts})
        m.update()
        if not any(type(a).__name__ == "LiquidationAction" for a in w.actions):
            raise Reject("the prior bar did not liquidate")
        m._supplies.clear()
        m._borrows.clear()
        w.set_row(*sym_row)
        w.install_state(sym_state["sup"], sym_state["bor"])
        n_prior = len(w.actions)
    if p.get("warm"):
        warm_views(m)
    st0 = w.raw()
    t0 = w.o_totals(st0)
    steps = []
    orig = m._do_liquidate

    def spy(collateral_token, delt_token, *a, **k):
        before = w.raw()
        rec = dict(c=collateral_token.name if collateral_token is not None else None, d=delt_token.name if delt_token is not None else None, before=before, n_act=len(w.actions))
        steps.append(rec)
        try:
            return orig(collateral_token, delt_token, *a, **k)
        finally:
            rec["after"] = w.raw()

    m._do_liquidate = spy
    try:
        m.update()
    except Exception as e:
        ctx.outcome("raised:" + type(e).__name__)
        ctx.check("end-of-bar liquidation terminates without an exception", False)
        return
    finally:
        del m._do_liquidate
    st1 = w.raw()
    acts = [a for a in w.actions[n_prior:] if type(a).__name__ == "LiquidationAction"]
    ctx.outcome(f"liquidation-steps:{len(acts)}")
    healthy0 = t0["LT"] >= t0["B"]
    # --- iff
    if acts:
        ctx.check("liquidated => health factor before was below 1", t0["LT"] < t0["B"])
    else:
        ctx.check("not liquidated => health factor before was >= 1 (or nothing to seize)", sor(healthy0, t0["LT"] == 0))
        for n in st0["sup"]:
            ctx.check("no liquidation => supplies untouched", st0["sup"][n][0] == st1["sup"].get(n, (None,))[0])
        for n in st0["bor"]:
            ctx.check("no liquidation => debts untouched", st0["bor"][n] == st1["bor"].get(n))
    for n in st0["wal"]:
        ctx.check("liquidation never touches the wallet", st0["wal"][n] == st1["wal"][n])
    # --- per step
    seen_debt = []
    for i, s in enumerate(steps):
        if "after" not in s or s["c"] is None or s["d"] is None:
            continue
        c, d = s["c"], s["d"]
        a, b = s["before"], s["after"]
        changed = len(w.actions) > s["n_act"] and (a["sup"] != b["sup"] or a["bor"] != b["bor"]) if not ctx.sym else True
        ta = w.o_totals(a)
        li_c, bi_d, pc, pd = w.row["li"][c], w.row["bi"][d], w.price[c], w.price[d]
        debt_a = a["bor"][d] * bi_d if d in a["bor"] else D(0)
        debt_b = b["bor"][d] * bi_d if d in b["bor"] else D(0)
        coll_a = a["sup"][c][0] * li_c if c in a["sup"] else D(0)
        coll_b = b["sup"][c][0] * li_c if c in b["sup"] else D(0)
        repaid = debt_a - debt_b
        seized = coll_a - coll_b
        bonus = w.risk[c]["bonus"]
        dust_c = D("2e-18") * li_c
        dust_d = D("2e-18") * bi_d
        hf_gt_095 = ta["LT"] > ta["B"] * D("0.95")
        cf = ite(hf_gt_095, D("0.5"), D(1))
        pre = f"step"
        ctx.check(f"{pre}: debt token visited at most once", d not in seen_debt)
        seen_debt.append(d)
        ctx.check(f"{pre}: repaid amount is non-negative", repaid >= -dust_d)
        ctx.check(f"{pre}: seized amount is non-negative", seized >= -dust_c)
        ctx.check(f"{pre}: repaid <= close factor x that debt", repaid <= cf * debt_a * (1 + REL) + dust_d)
        ctx.check(f"{pre}: seized <= collateral held", seized <= coll_a * (1 + REL))
        ctx.check(
            f"{pre}: seized value == repaid value x (1 + bonus of the collateral) at the collateral's own index",
            ctx.close(seized * pc, repaid * pd * (1 + bonus), rel=REL, abs_=(dust_c * pc + dust_d * pd) * 2),
        )
        # bystanders
        for n in a["sup"]:
            if n != c:
                ctx.check(f"{pre}: other supplies untouched", n in b["sup"] and a["sup"][n][0] == b["sup"][n][0])
        for n in a["bor"]:
            if n != d:
                ctx.check(f"{pre}: other debts untouched", n in b["bor"] and a["bor"][n] == b["bor"][n])
        nv_a, nv_b = w.o_net_value(a), w.o_net_value(b)
        ctx.check(f"{pre}: net value drops by exactly bonus x repaid value", ctx.close(nv_a - nv_b, bonus * repaid * pd, rel=REL, abs_=(dust_c * pc + dust_d * pd) * 2))
        ctx.check("CANARY liquidation is free", ctx.close(nv_a, nv_b, rel=REL))
        # action record of this step
        if len(w.actions) > s["n_act"]:
            act = w.actions[s["n_act"]]
            ctx.check(f"{pre}: action collateral_used == seized", ctx.close(act.collateral_used, seized, rel=REL, abs_=dust_c))
            ctx.check(f"{pre}: action variable_delt_liquidated == repaid", ctx.close(act.variable_delt_liquidated, repaid, rel=REL, abs_=dust_d))
            ctx.check(f"{pre}: action collateral_after == position", ctx.close(act.collateral_after, coll_b, rel=REL, abs_=dust_c))
            ctx.check(f"{pre}: action variable_debt_after == position", ctx.close(act.variable_debt_after, debt_b, rel=REL, abs_=dust_d))
            ctx.check(f"{pre}: action names the tokens", act.collateral_token == c and act.debt_token == d)
    # --- termination
    t1 = w.o_totals(st1)
    all_visited = set(seen_debt) >= set(st0["bor"])
    if not all_visited:
        ctx.check("process ends with HF >= 1, no collateral left, or every debt visited once", sor(t1["LT"] >= t1["B"] * (1 - REL), t1["LT"] == 0))
    for n, (bamt, _) in st1["sup"].items():
        ctx.check("supplies stay non-negative", bamt >= 0)
    for n, bamt in st1["bor"].items():
        ctx.check("debts stay non-negative", bamt >= 0)


def scenarios(tier):
    names = QUICK if tier == "quick" else tuple(SHAPES)
    out = []
    for n in names:
        out.append(
            Scenario(
                f"liquidation/{n}",
                liquidation,
                params=dict(shape=SHAPES[n], warm=False),
                shadows=SHADOWS,
                entry=("AaveV3Market.update", "_liquidate", "_do_liquidate"),
                canary="CANARY liquidation is free",
                expect_outcomes=("liquidation-steps:0", "liquidation-steps:1"),
                max_paths=3000,
                time_budget_s=400,
                witness_cap=40,
            )
        )
    for n in ("1c1d", "1c2d") if tier == "quick" else ("1c1d", "1c2d", "2c1d", "2c2d"):
        out.append(Scenario(f"liquidation/{n}/after_a_liquidation_in_an_earlier_bar", liquidation, params=dict(shape=SHAPES[n], warm=False, prior_liquidation=True), shadows=SHADOWS, entry=("AaveV3Market.update", "_liquidate", "_do_liquidate", "set_market_status"), expect_outcomes=("liquidation-steps:0", "liquidation-steps:1"), max_paths=3000, time_budget_s=400, witness_cap=20))
    for n in ("1c1d", "2c1d") if tier == "quick" else ("1c1d", "2c1d", "1c2d", "2c2d"):
        out.append(Scenario(f"liquidation/{n}/another_aave_market_with_other_risk_parameters_in_the_process", liquidation, params=dict(shape=SHAPES[n], warm=False, neighbour_market=True), shadows=SHADOWS, entry=("AaveV3Market.update", "_liquidate", "_do_liquidate", "AaveV3CoreLib.health_factor"), expect_outcomes=("liquidation-steps:0", "liquidation-steps:1"), max_paths=3000, time_budget_s=400, witness_cap=20))
    out.append(Scenario("liquidation/1c1d/warm", liquidation, params=dict(shape=SHAPES["1c1d"], warm=True), shadows=SHADOWS, entry=("update",), max_paths=2000))
    return out
