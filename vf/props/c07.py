"""C07 -- liquidity / amount math: no over-spend, maximal, one-sided out of range, exact."""
from decimal import Decimal

from ..harness import Scenario
from ..symx import ite, sand, sor, snot, smax, smin, sabs, is_sym

D = Decimal
META = {
    "level": "model_checking",
    "level_text": "Bounded symbolic model checking of the real get_liquidity / get_amounts / V3CoreLib.new_position / close_position: the sqrt price "
    "(an integer anywhere in its region), both offered amounts, the liquidity, a second price and a scale factor are symbolic; tick "
    "pairs, decimals and the price region come from finite grids. z3 proves no over-spend, maximality up to the stated integer "
    "rounding, one-sidedness out of range, non-negativity, monotonicity in price, proportionality to liquidity, equality with the "
    "closed-form v3 formulas (written from the whitepaper) and exact deposit/withdraw round trip.",
    "bounds": ["tick pairs from a grid of 8 (adjacent, one spacing, wide, touching MIN and MAX, negative and positive)", "decimals (6,18),(18,6),(18,18),(8,18) [thorough: {6,8,18}^2]", "amounts in [0, 1e12] tokens, liquidity in [0, 1e30], price anywhere in [MIN_SQRT_RATIO, MAX_SQRT_RATIO] per region"],
    "outside": ["tick pairs outside the grid", "Decimal rounding of the 35-digit context (modelled as exact)"],
    "assumptions": ["Decimal modelled as exact reals; int() and // modelled exactly"],
}
SHADOWS = ("demeter.uniswap.liquitidy_math", "demeter.uniswap.core", "demeter.uniswap.helper")
MIN_TICK, MAX_TICK = -887272, 887272
MIN_SQRT, MAX_SQRT = 4295128739, 1461446703485210103287273052203988822378723970342
Q96 = 1 << 96
REL = D("1e-30")

PAIRS_Q = ((-1, 0), (-60, 60), (193380, 196320), (-887272, -887212), (887212, 887272), (-887272, 887272), (-200040, -199980), (0, 1))
PAIRS_T = PAIRS_Q + ((1, 2), (-276330, -276320), (73140, 92100), (-10, 10), (887271, 887272))
DECS_Q = ((6, 18), (18, 6), (18, 18), (8, 18))
DECS_T = tuple((a, b) for a in (6, 8, 18) for b in (6, 8, 18))
REGIONS = ("below", "at_lower", "inside", "at_upper", "above")


def _dec(x):
    from .. import symx

    return symx.sym_dec(x) if isinstance(x, symx.Sym) else D(x)


def _exact(x):
    """oracle arithmetic: symbolic terms are exact already; concrete numbers become Fractions (no Decimal cancellation)"""
    import fractions
    from .. import symx

    return symx.sym_dec(x) if isinstance(x, symx.Sym) else fractions.Fraction(x)


def _price(ctx, name, region, sa, sb):
    if region == "below":
        return ctx.int_(name, MIN_SQRT, sa - 1) if sa > MIN_SQRT else None
    if region == "at_lower":
        return sa
    if region == "inside":
        return ctx.int_(name, sa + 1, sb - 1) if sb - sa > 1 else None
    if region == "at_upper":
        return sb
    return ctx.int_(name, sb + 1, MAX_SQRT) if sb < MAX_SQRT else None


def _bounds_ok(ctx, ta, tb):
    """the liquidity math takes its range bounds from get_sqrt_ratio_at_tick: the closed forms are stated for the protocol's sqrt
    prices of the two ticks, so the two bounds used here are first held against C06's tolerance (exact rational enclosure)"""
    from demeter.uniswap.liquitidy_math import get_sqrt_ratio_at_tick
    from .c06 import _property_tolerance_ok

    ctx.check("the range bounds are the protocol's sqrt prices of the two ticks (C06 tolerance, evaluated on this pair)", _property_tolerance_ok(get_sqrt_ratio_at_tick, ta) and _property_tolerance_ok(get_sqrt_ratio_at_tick, tb))


def mint(ctx):
    """get_liquidity then get_amounts at the same price"""
    from demeter.uniswap.liquitidy_math import get_liquidity, get_amounts, get_sqrt_ratio_at_tick

    ta, tb, d0, d1, region = ctx.p["ta"], ctx.p["tb"], ctx.p["d0"], ctx.p["d1"], ctx.p["region"]
    _bounds_ok(ctx, ta, tb)
    sa, sb = get_sqrt_ratio_at_tick(ta), get_sqrt_ratio_at_tick(tb)
    s = _price(ctx, "sqrt_price_x96", region, sa, sb)
    if s is None:
        ctx.outcome("empty-region")
        return
    a0 = ctx.dec("amount0", 0, 10**12)
    a1 = ctx.dec("amount1", 0, 10**12)
    if ctx.p.get("after_mirrored_ticks"):
        # the mirrored pool's ticks were converted just before (two pools of opposite token order in one process): whatever the
        # conversion remembers of those calls must not leak into this position's bounds
        get_sqrt_ratio_at_tick(-tb)
        get_sqrt_ratio_at_tick(-ta)
    L = get_liquidity(s, ta, tb, a0, a1, d0, d1)
    u0, u1 = get_amounts(s, ta, tb, L, d0, d1)
    ctx.outcome("minted")
    ctx.observe("liquidity", L)
    ctx.observe("used0", u0)
    ctx.observe("used1", u1)
    below = region in ("below", "at_lower")
    above = region in ("at_upper", "above")
    ctx.check("liquidity is non-negative", L >= 0)
    ctx.check("no over-spend of token0", u0 <= a0 * (1 + REL))
    ctx.check("no over-spend of token1", u1 <= a1 * (1 + REL))
    ctx.check("used amounts are non-negative", sand(u0 >= 0, u1 >= 0))
    if below:
        ctx.check("below the range a position holds only token0", u1 == 0)
    if above:
        ctx.check("above the range a position holds only token1", u0 == 0)
    # --- maximality up to the integer rounding of the LiquidityAmounts formulas
    w0 = a0 * 10**d0  # offered, in wei (real valued; the code truncates to an integer)
    w1 = a1 * 10**d1
    lo_p = _dec(sa if below else s)
    hi_p = _dec(sb if above else s)
    sa, sb = D(sa), D(sb)
    if not above:
        l0_real = w0 * (lo_p * sb) / Q96 / (sb - lo_p)
    if not below:
        l1_real = w1 * Q96 / (hi_p - sa)
    if below:
        lmax = l0_real
        slack = 2 + w0 / (sb - lo_p) + (lo_p * sb) / Q96 / (sb - lo_p)
    elif above:
        lmax = l1_real
        slack = 2 + D(Q96) / (hi_p - sa)
    else:
        lmax = smin(l0_real, l1_real)
        slack = 2 + w0 / (sb - lo_p) + (lo_p * sb) / Q96 / (sb - lo_p) + D(Q96) / (hi_p - sa)
    # (the last terms account for truncating the offered amounts to whole wei)
    if below or above:
        ctx.check("liquidity is maximal up to the integer rounding (one unit + offered token0 / sqrt-price span)", L >= lmax - slack - lmax * REL)  # REL: the oracle's own constants are 35-digit Decimals (liquidity reaches 1e35 next to MAX_TICK)
    else:
        # in range the obligation has two nested floors over symbolic price and amounts; it is discharged in four steps
        # (i) token0 side, (ii) token1 side, (iii) the function returns the smaller side, (iv) min is monotone (abstract lemma)
        from demeter.uniswap.liquitidy_math import get_liquidity_for_amount0, get_liquidity_for_amount1, to_wei

        w0i, w1i = to_wei(a0, d0), to_wei(a1, d1)
        L0 = get_liquidity_for_amount0(s, int(sb), w0i)
        L1 = get_liquidity_for_amount1(int(sa), s, w1i)
        s0 = 1 + w0 / (sb - lo_p) + (lo_p * sb) / Q96 / (sb - lo_p)
        s1 = 1 + D(Q96) / (hi_p - sa)
        ctx.check("maximality (i): token0-side liquidity >= real value - 1 - offered0/span", L0 >= l0_real - s0 - l0_real * REL)
        ctx.check("maximality (ii): token1-side liquidity >= real value - 1", L1 >= l1_real - s1 - l1_real * REL)
        ctx.check("maximality (iii): in range the minted liquidity is the smaller side", L == smin(L0, L1))
        if ctx.sym:
            import z3
            from .. import symx

            A, B, a, b, p, q = (z3.Real(n) for n in ("mA", "mB", "ma", "mb", "mp", "mq"))
            mn = lambda x, y: z3.If(x <= y, x, y)
            ctx.check("maximality (iv): min is monotone, so (i)-(iii) give the bound on the minted liquidity", symx.SymBool(z3.Implies(z3.And(A >= a - p, B >= b - q, p >= 0, q >= 0), mn(A, B) >= mn(a, b) - (p + q))))
    ctx.check("liquidity never exceeds the real-valued maximum", L <= lmax * (1 + REL))
    ctx.check("CANARY minted liquidity is zero", L == 0)


def amounts(ctx):
    """get_amounts: closed forms, sign, one-sidedness, monotonicity in price, proportionality"""
    from demeter.uniswap.liquitidy_math import get_amounts, get_sqrt_ratio_at_tick

    ta, tb, d0, d1 = ctx.p["ta"], ctx.p["tb"], ctx.p["d0"], ctx.p["d1"]
    sa, sb = get_sqrt_ratio_at_tick(ta), get_sqrt_ratio_at_tick(tb)
    L = ctx.int_("liquidity", 0, 10**30)
    s1 = ctx.int_("sqrt_price_1", MIN_SQRT, MAX_SQRT)
    s2 = ctx.int_("sqrt_price_2", MIN_SQRT, MAX_SQRT)
    ctx.assume(s1 <= s2)
    x0, x1 = get_amounts(s1, ta, tb, L, d0, d1)
    y0, y1 = get_amounts(s2, ta, tb, L, d0, d1)
    ctx.outcome("computed")
    ctx.observe("x0", x0)
    ctx.observe("x1", x1)
    # closed forms from the v3 whitepaper (6.29, 6.30), clamping the price into the range
    c = _exact(smax(smin(s1, sb), sa))
    e0 = _exact(L) * Q96 * (1 / c - 1 / _exact(sb)) / 10**d0
    e1 = _exact(L) * (c - sa) / _exact(Q96) / 10**d1
    ctx.check("amount0 == L * (1/sqrtP - 1/sqrtB) (closed form, 1e-30 relative)", ctx.close(x0, e0, rel=REL))
    ctx.check("amount1 == L * (sqrtP - sqrtA) (closed form, 1e-30 relative)", ctx.close(x1, e1, rel=REL))
    ctx.check("amounts are non-negative", sand(x0 >= 0, x1 >= 0))
    ctx.check("only token0 at or below the range", sor(s1 > sa, x1 == 0))
    ctx.check("only token1 at or above the range", sor(s1 < sb, x0 == 0))
    ctx.check("both tokens strictly inside the range (for positive liquidity)", sor(L == 0, s1 <= sa, s1 >= sb, sand(x0 > 0, x1 > 0)))
    ctx.check("token0 amount is non-increasing in price", y0 <= x0 * (1 + REL))
    ctx.check("token1 amount is non-decreasing in price", y1 * (1 + REL) >= x1)
    k = ctx.int_("k", 1, 10**6)
    z0, z1 = get_amounts(s1, ta, tb, L * k, d0, d1)
    ctx.check("amounts are proportional to liquidity (token0)", ctx.close(z0, x0 * k, rel=REL))
    ctx.check("amounts are proportional to liquidity (token1)", ctx.close(z1, x1 * k, rel=REL))
    ctx.check("CANARY amount0 is independent of price", x0 == y0)


def roundtrip(ctx):
    """V3CoreLib.new_position then close_position at the same price returns exactly the used amounts"""
    from demeter import TokenInfo
    from demeter.uniswap import UniV3Pool
    from demeter.uniswap.core import V3CoreLib
    from demeter.uniswap.liquitidy_math import get_sqrt_ratio_at_tick

    ta, tb, d0, d1, region = ctx.p["ta"], ctx.p["tb"], ctx.p["d0"], ctx.p["d1"], ctx.p["region"]
    t0, t1 = TokenInfo("AAA", d0), TokenInfo("BBB", d1)
    pool = UniV3Pool(t0, t1, 0.05, t0)
    sa, sb = get_sqrt_ratio_at_tick(ta), get_sqrt_ratio_at_tick(tb)
    s = _price(ctx, "sqrt_price_x96", region, sa, sb)
    if s is None:
        ctx.outcome("empty-region")
        return
    a0 = ctx.dec("amount0", 0, 10**12)
    a1 = ctx.dec("amount1", 0, 10**12)
    u0, u1, liq, pos = V3CoreLib.new_position(pool, a0, a1, ta, tb, s)
    r0, r1 = V3CoreLib.close_position(pool, pos, liq, s)
    ctx.outcome("roundtrip")
    ctx.check("deposit never uses more than offered (token0)", u0 <= a0 * (1 + REL))
    ctx.check("deposit never uses more than offered (token1)", u1 <= a1 * (1 + REL))
    ctx.check("withdrawing at the deposit price returns exactly the deposited token0", r0 == u0)
    ctx.check("withdrawing at the deposit price returns exactly the deposited token1", r1 == u1)
    ctx.check("position records the tick range", pos.lower_tick == ta and pos.upper_tick == tb)
    ctx.check("CANARY round trip returns nothing", sand(r0 == 0, r1 == 0))


def scenarios(tier):
    pairs = PAIRS_Q if tier == "quick" else PAIRS_T
    decs = DECS_Q if tier == "quick" else DECS_T
    out = []
    for ta, tb in pairs:
        for i, (d0, d1) in enumerate(decs):
            if tier == "quick" and (ta, tb) not in ((-60, 60), (193380, 196320), (-887272, 887272)) and i > 0:
                continue
            for region in REGIONS:
                out.append(
                    Scenario(
                        f"mint/{ta}_{tb}/d{d0}_{d1}/{region}", mint, params=dict(ta=ta, tb=tb, d0=d0, d1=d1, region=region), shadows=SHADOWS,
                        entry=("get_liquidity", "get_amounts", "get_liquidity_for_amount0/1", "mul_div", "to_wei"), nlsat=False, query_timeout_ms=int(__import__("os").environ.get("C07_TO", "30000")),
                        canary="CANARY minted liquidity is zero" if region == "inside" and (ta, tb) in ((-60, 60), (193380, 196320)) else None,
                    )
                )
            out.append(Scenario(f"amounts/{ta}_{tb}/d{d0}_{d1}", amounts, params=dict(ta=ta, tb=tb, d0=d0, d1=d1), shadows=SHADOWS, entry=("get_amounts", "get_amount0", "get_amount1"), nlsat=False, query_timeout_ms=30000, canary="CANARY amount0 is independent of price"))
        if (ta, tb) in ((-60, 60), (193380, 196320)):
            for region in ("below", "inside", "above"):
                out.append(Scenario(f"mint/{ta}_{tb}/d{decs[0][0]}_{decs[0][1]}/{region}/after_the_mirrored_ticks_were_converted", mint, params=dict(ta=ta, tb=tb, d0=decs[0][0], d1=decs[0][1], region=region, after_mirrored_ticks=True), shadows=SHADOWS, entry=("get_liquidity", "get_amounts", "get_sqrt_ratio_at_tick"), nlsat=False, query_timeout_ms=30000))
        for region in ("below", "inside", "above"):
            out.append(Scenario(f"roundtrip/{ta}_{tb}/{region}", roundtrip, params=dict(ta=ta, tb=tb, d0=decs[0][0], d1=decs[0][1], region=region), shadows=SHADOWS, entry=("V3CoreLib.new_position", "V3CoreLib.close_position"), nlsat=False, query_timeout_ms=30000))
    return out
