"""symx -- proxy-based symbolic execution of the *real* demeter classes with z3.

Values: `Sym` wraps a z3 arithmetic term with a kind tag (int / dec / float); `SymBool.__bool__` is the only
place where a path forks.  Paths are enumerated depth-first by re-execution with a decision prefix.
Decimal and float are modelled over the reals (DESIGN.md 6.1), Python int over z3 Int.

Nothing in this file knows about demeter; `vf/shadow.py` installs the name shadows into demeter modules.
"""
from __future__ import annotations

import decimal
import fractions
import math as _math
import time
from decimal import Decimal as _D

import z3

_builtin_int = int
_builtin_float = float
_builtin_str = str
_builtin_isinstance = isinstance


class PathAbort(BaseException):
    """Raised to end the current path (infeasible / budget / unsupported). BaseException so that demeter's
    `except Exception`/`except AssertionError` handlers never swallow it."""


class Unsupported(PathAbort):
    pass


# ------------------------------------------------------------------------------------------------ explorer


class Explorer:
    def __init__(self, max_paths=20000, query_timeout_ms=20000, max_depth=400):
        _lg = __import__("os").environ.get("VERIF_Z3_LOGIC")
        self.solver = z3.SolverFor(_lg) if _lg else z3.Solver()
        self.solver.set("timeout", query_timeout_ms)
        self.query_timeout_ms = query_timeout_ms
        self.prefix = []
        self.trace = []
        self.todo = []
        self.n_queries = 0
        self.solver_s = 0.0
        self.max_paths = max_paths
        self.max_depth = max_depth
        self.n_unknown_branch = 0
        self.n_fresh = 0
        self.path_uncertain = False
        self.deadline = None
        self.budget_hit = False
        self.n_fallback = 0
        self.round_memo = {}
        self._last = self.solver

    # -- solver access
    def check(self, *extra):
        t = time.time()
        self.n_queries += 1
        r = None
        if NLSAT != "0":
            # non-incremental nlsat first (an order of magnitude faster on these polynomial queries);
            # anything but sat/unsat falls back to the incremental SMT core, which also handles UF / ToInt.
            try:
                s2 = z3.Then("simplify", "purify-arith", "qfnra-nlsat").solver()
                s2.set("timeout", min(self.query_timeout_ms, 5000))
                s2.add(self.solver.assertions())
                s2.add(*extra)
                r = s2.check()
                self._last = s2
                if str(r) == "unknown":
                    r = None
                    self.n_fallback += 1
            except z3.Z3Exception:
                r = None
                self.n_fallback += 1
        if r is None:
            r = self.solver.check(*extra)
            self._last = self.solver
        dt = time.time() - t
        self.solver_s += dt
        if dt > 2.0 and SLOW_LOG is not None:
            SLOW_LOG.append((round(dt, 2), str(r), [str(e)[:300] for e in extra]))
        return str(r)

    def fresh(self, base, sort="real"):
        self.n_fresh += 1
        name = f"{base}!{self.n_fresh}"
        return z3.Real(name) if sort == "real" else z3.Int(name)

    def add(self, c):
        self.solver.add(c)

    def branch(self, cond):
        """cond: z3 BoolRef -> python bool; records the decision."""
        cond = z3.simplify(cond)
        if z3.is_true(cond):
            return True
        if z3.is_false(cond):
            return False
        i = len(self.trace)
        if i < len(self.prefix):
            d = self.prefix[i]
            self.trace.append(d)
            self.solver.add(cond if d else z3.Not(cond))
            return d
        if i >= self.max_depth:
            raise PathAbort("fork depth budget")
        rt = self.check(cond)
        if rt == "unsat":
            d = False  # pc is satisfiable, so the negation is
        else:
            rf = self.check(z3.Not(cond))
            if rt == "unknown" or rf == "unknown":
                self.n_unknown_branch += 1
                self.path_uncertain = True
            if rf == "unsat":
                if rt == "unknown":
                    # pc ∧ cond unknown, pc ∧ ¬cond unsat: cond is implied
                    pass
                d = True
            else:
                self.todo.append(self.trace + [False])
                d = True
        self.trace.append(d)
        self.solver.add(cond if d else z3.Not(cond))
        return d

    def choose(self, n, what="choice"):
        """non-deterministic choice among n alternatives made by the harness (structural fork)."""
        k = 0
        while k < n - 1:
            b = z3.Bool(f"{what}!{len(self.trace)}")
            if self.branch(b):
                return k
            k += 1
        return n - 1

    def run(self, fn, on_path=None):
        """fn() executes one path. Returns list of (status, trace, result)."""
        self.todo = [[]]
        results = []
        complete = True
        while self.todo:
            if len(results) >= self.max_paths or (self.deadline and time.time() > self.deadline):
                complete = False
                self.budget_hit = True
                break
            self.prefix = self.todo.pop()
            self.trace = []
            self.path_uncertain = False
            self.round_memo = {}
            self.solver.push()
            try:
                r = fn()
                results.append(("ok", list(self.trace), r))
            except PathAbort as e:
                results.append(("abort", list(self.trace), f"{type(e).__name__}: {e}"))
                if not _builtin_isinstance(e, Infeasible):
                    complete = False
            finally:
                self.solver.pop()
        return results, complete

    def prove(self, prop):
        """Under the current path condition: 'valid' / ('refuted', model) / 'unknown'."""
        if _builtin_isinstance(prop, SymBool):
            prop = prop.e
        elif _builtin_isinstance(prop, bool):
            if prop:
                return "valid", None
            r = self.check()
            return ("refuted", self._last.model()) if r == "sat" else ("unknown", None)
        prop = z3.simplify(prop)
        if z3.is_true(prop):
            return "valid", None
        r = self.check(z3.Not(prop))
        if r == "unsat":
            return "valid", None
        if r == "sat":
            return "refuted", self._last.model()
        # unknown: retry with the purely real part of the path condition (dropping constraints is sound for proving)
        try:
            t = time.time()
            s2 = z3.Then("simplify", "purify-arith", "qfnra-nlsat").solver()
            s2.set("timeout", self.query_timeout_ms)
            # integers are relaxed to reals (ToReal(i) -> fresh real); constraints that still mention integers are dropped
            forms = list(self.solver.assertions()) + [z3.Not(prop)]
            ints = {}
            for f in forms:
                _int_consts(f, ints)
            subs = [(z3.ToReal(v), z3.Real("relaxed!" + str(v))) for v in ints.values()]
            kept = 0
            for f in forms[:-1]:
                g = z3.substitute(f, *subs) if subs else f
                if _pure_real(g):
                    s2.add(g)
                    kept += 1
            g = z3.substitute(forms[-1], *subs) if subs else forms[-1]
            if not _pure_real(g):
                raise z3.Z3Exception("obligation is not purely real after relaxation")
            s2.add(g)
            self.n_queries += 1
            r2 = str(s2.check())
            self.solver_s += time.time() - t
            if r2 == "unsat":
                return "valid", None
        except z3.Z3Exception:
            pass
        return "unknown", None

    def model(self):
        r = self.check()
        if r == "sat":
            return self._last.model()
        return None

    def nice_model(self, variables, extra=None, model=None):
        """Try to replace the solver's model by one whose real-valued inputs are short decimals (rounded to few
        significant digits) and that still satisfies the path condition (and `extra`).  Such a model is off the
        knife edges z3 likes to pick, so it survives the 35-digit Decimal rounding of the concrete replay.
        variables: list of z3 consts (inputs). Falls back to the given/plain model."""
        ext = [extra] if extra is not None else []
        if model is None:
            if self.check(*ext) != "sat":
                return None
            model = self._last.model()
        base = {}
        for v in variables:
            val = model.eval(v, model_completion=True)
            if z3.is_int_value(val) or z3.is_true(val) or z3.is_false(val):
                base[v] = (val, None)
            elif z3.is_rational_value(val):
                base[v] = (val, fractions.Fraction(val.numerator_as_long(), val.denominator_as_long()))
            elif z3.is_algebraic_value(val):
                a = val.approx(30)
                base[v] = (val, fractions.Fraction(a.numerator_as_long(), a.denominator_as_long()))
            else:
                return model
        if all(f is None or (f.denominator in (1, 2, 4, 5, 8, 10, 20, 100, 1000)) for _, f in base.values()):
            return model
        saved = self.solver.params if False else None
        self.solver.set("timeout", 3000)
        try:
            for digits in (3, 6, 10, 16):
                for mode in ("half", "down", "up"):
                    eqs = []
                    for v, (val, f) in base.items():
                        if f is None:
                            eqs.append(v == val)
                        else:
                            eqs.append(v == _frac_to_z3(_round_sig(f, digits, mode)))
                    if self.check(*(eqs + ext)) == "sat":
                        return self._last.model()
        finally:
            self.solver.set("timeout", self.query_timeout_ms)
        return model


class Infeasible(PathAbort):
    pass


_PURE = {}


def _int_consts(e, acc, seen=None):
    seen = seen if seen is not None else set()
    i = e.get_id()
    if i in seen:
        return
    seen.add(i)
    if z3.is_const(e):
        if z3.is_int(e) and not z3.is_int_value(e) and e.decl().kind() == z3.Z3_OP_UNINTERPRETED:
            acc[str(e)] = e
        return
    if z3.is_app(e):
        for c in e.children():
            _int_consts(c, acc, seen)



def _pure_real(e):
    """no integer-sorted subterm (ToInt, Int constants/variables, div, mod)"""
    i = e.get_id()
    if i in _PURE:
        return _PURE[i]
    ok = True
    if z3.is_int(e) and not z3.is_int_value(e):
        ok = False
    elif z3.is_app(e):
        k = e.decl().kind()
        if k in (z3.Z3_OP_TO_INT, z3.Z3_OP_IDIV, z3.Z3_OP_MOD, z3.Z3_OP_REM, z3.Z3_OP_IS_INT, z3.Z3_OP_UNINTERPRETED) and e.num_args() > 0:
            ok = False
        else:
            for c in e.children():
                if z3.is_int(c) and z3.is_int_value(c):
                    continue
                if z3.is_app(c) and c.decl().kind() == z3.Z3_OP_TO_REAL and z3.is_int_value(c.arg(0)):
                    continue
                if not _pure_real(c):
                    ok = False
                    break
    _PURE[i] = ok
    return ok


def _round_sig(f: fractions.Fraction, digits: _builtin_int, mode: _builtin_str) -> fractions.Fraction:
    if f == 0:
        return f
    sign = 1 if f > 0 else -1
    a = abs(f)
    e = 0
    while a >= 10:
        a /= 10
        e += 1
    while a < 1:
        a *= 10
        e -= 1
    scale = fractions.Fraction(10) ** (digits - 1)
    y = a * scale
    fl = y.numerator // y.denominator
    if mode == "down":
        k = fl
    elif mode == "up":
        k = fl if y == fl else fl + 1
    else:
        k = fl + (1 if (y - fl) >= fractions.Fraction(1, 2) else 0)
    return sign * fractions.Fraction(k) / scale * fractions.Fraction(10) ** e


CUR: Explorer | None = None
NLSAT = __import__('os').environ.get('VERIF_NLSAT', '1')
ROUND_MODE = "exact"  # or "uf": quantize/round as uninterpreted function + bracketing axiom
RELAX_INT = False  # True: int()/floor/`//` results are fresh REAL-sorted terms bracketed by x-1 < r <= x (no integrality):
#                    a sound over-approximation for proving; a refutation is only a candidate and must replay concretely.
SLOW_LOG = [] if __import__('os').environ.get('VERIF_SLOWLOG') else None


def cur() -> Explorer:
    if CUR is None:
        raise RuntimeError("no active explorer")
    return CUR


# ------------------------------------------------------------------------------------------------ values

INT, DEC, FLT = "int", "dec", "float"
_RANK = {INT: 0, DEC: 1, FLT: 1}


def _frac_to_z3(f: fractions.Fraction):
    return z3.RealVal(_builtin_str(f))


class _NonFinite:
    def __init__(self, sign, nan=False):
        self.sign = sign
        self.nan = nan


def _lift(x):
    """-> (z3 term, kind) | _NonFinite | None"""
    if _builtin_isinstance(x, Sym):
        return x.e, x.kind
    if _builtin_isinstance(x, SymBool):
        return z3.If(x.e, z3.IntVal(1), z3.IntVal(0)), INT
    if _builtin_isinstance(x, bool):
        return z3.IntVal(_builtin_int(x)), INT
    if _builtin_isinstance(x, _builtin_int):
        return z3.IntVal(x), INT
    if _builtin_isinstance(x, _D):
        if x.is_nan():
            return _NonFinite(0, True)
        if not x.is_finite():
            return _NonFinite(1 if x > 0 else -1)
        return _frac_to_z3(fractions.Fraction(x)), DEC
    if _builtin_isinstance(x, _builtin_float):
        if x != x:
            return _NonFinite(0, True)
        if x in (_math.inf, -_math.inf):
            return _NonFinite(1 if x > 0 else -1)
        return _frac_to_z3(fractions.Fraction(x)), FLT
    if _builtin_isinstance(x, fractions.Fraction):
        return _frac_to_z3(x), DEC
    try:
        import numpy as np

        if _builtin_isinstance(x, np.integer):
            return z3.IntVal(_builtin_int(x)), INT
        if _builtin_isinstance(x, np.floating):
            return _lift(_builtin_float(x))
        if _builtin_isinstance(x, np.bool_):
            return z3.IntVal(_builtin_int(bool(x))), INT
    except ImportError:
        pass
    return None


def _real(e):
    return z3.ToReal(e) if e.sort() == z3.IntSort() else e


def _res_kind(k1, k2, op):
    if k1 == k2:
        return k1
    s = {k1, k2}
    if s == {DEC, FLT}:
        raise TypeError(f"unsupported operand type(s) for {op}: 'decimal.Decimal' and 'float'")
    if INT in s:
        return (s - {INT}).pop()
    raise AssertionError


class SymBool:
    __slots__ = ("e",)

    def __init__(self, e):
        self.e = e

    def __bool__(self):
        return cur().branch(self.e)

    def _o(self, o):
        if _builtin_isinstance(o, SymBool):
            return o.e
        if _builtin_isinstance(o, Sym):
            return o.e != 0
        return z3.BoolVal(bool(o))

    def __and__(self, o):
        return SymBool(z3.And(self.e, self._o(o)))

    __rand__ = __and__

    def __or__(self, o):
        return SymBool(z3.Or(self.e, self._o(o)))

    __ror__ = __or__

    def __invert__(self):
        return SymBool(z3.Not(self.e))

    def __eq__(self, o):
        return SymBool(self.e == self._o(o))

    def __ne__(self, o):
        return SymBool(self.e != self._o(o))

    __hash__ = None

    def __repr__(self):
        return f"SymBool({self.e})"

    def __deepcopy__(self, memo):
        return self

    # arithmetic on booleans (sum of flags)
    def _as_sym(self):
        return Sym(z3.If(self.e, z3.IntVal(1), z3.IntVal(0)), INT)

    def __add__(self, o):
        return self._as_sym() + o

    __radd__ = __add__

    def __mul__(self, o):
        return self._as_sym() * o

    __rmul__ = __mul__


def _floor_real(e):
    return z3.ToInt(e)  # z3 ToInt is floor


def _relaxed_floor(e, mode="floor"):
    """fresh real r with the bracket of floor / truncation of the real term e (memoised per path and term)"""
    ex = cur()
    es = z3.simplify(e)
    key = ("relax-" + mode, es.get_id())
    hit = ex.round_memo.get(key)
    if hit is not None:
        return hit[0]
    if z3.is_const(es) and ("intlike", es.get_id()) in ex.round_memo:
        return es  # floor of a value that is itself a (relaxed) floor: no second bracket
    r = ex.fresh("ifloor")
    ex.round_memo[key] = (r, es)
    ex.round_memo[("intlike", r.get_id())] = (r, r)
    if mode == "floor":
        ex.add(z3.And(r <= es, es - r < 1))
    else:  # truncation toward zero
        ex.add(z3.If(es >= 0, z3.And(r <= es, es - r < 1, r >= 0), z3.And(r >= es, r - es < 1, r <= 0)))
    return r


def _trunc_int(e):
    """truncate a Real term toward zero -> Int term"""
    es = z3.simplify(e)
    if z3.is_app(es) and es.decl().kind() == z3.Z3_OP_TO_REAL:
        return es.arg(0)  # already an integer
    if RELAX_INT:
        return _relaxed_floor(es, "trunc")
    fl = z3.ToInt(e)
    return z3.If(e >= 0, fl, z3.If(z3.ToReal(fl) == e, fl, fl + 1))


class Sym:
    """symbolic number standing for a Python int, a Decimal or a float"""

    __slots__ = ("e", "kind", "_unit", "_rnd", "_ratio")
    __array_ufunc__ = None
    __array_priority__ = 1000

    def __init__(self, e, kind, unit=None, rnd=None):
        self.e = e
        self.kind = kind
        self._unit = unit
        self._rnd = rnd  # (real term x, Fraction quantum q, rounding mode): self == round_q(x); lets comparisons avoid ToInt
        self._ratio = None  # (int term, positive int): self == num/den exactly; lets round() stay in integer arithmetic

    # ---- helpers
    def _bin(self, o, f, op, reflected=False):
        l = _lift(o)
        if l is None:
            return NotImplemented
        if _builtin_isinstance(l, _NonFinite):
            return self._nonfinite_arith(l, op, reflected)
        oe, ok = l
        kind = _res_kind(self.kind, ok, op)
        a, b = (oe, self.e) if reflected else (self.e, oe)
        if kind != INT:
            a, b = _real(a), _real(b)
        return Sym(f(a, b), kind)

    def _nonfinite_arith(self, l, op, reflected):
        # x op inf
        if l.nan:
            return _D("nan") if self.kind == DEC else _math.nan
        mk = (lambda s: _D("inf") * s) if self.kind != FLT else (lambda s: _math.inf * s)
        if op in ("+", "-"):
            s = l.sign if (op == "+" or reflected) else -l.sign
            return mk(s)
        if op == "*":
            pos = bool(SymBool(self.e > 0))
            if not pos and bool(SymBool(self.e == 0)):
                return _D("nan") if self.kind == DEC else _math.nan
            return mk(l.sign if pos else -l.sign)
        if op == "/":
            if reflected:  # inf / x
                pos = bool(SymBool(self.e >= 0))
                return mk(l.sign if pos else -l.sign)
            return _D(0) if self.kind == DEC else 0.0
        raise Unsupported(f"non-finite operand for {op}")

    def __add__(self, o):
        return self._bin(o, lambda a, b: a + b, "+")

    def __radd__(self, o):
        return self._bin(o, lambda a, b: a + b, "+", True)

    def __sub__(self, o):
        return self._bin(o, lambda a, b: a - b, "-")

    def __rsub__(self, o):
        return self._bin(o, lambda a, b: a - b, "-", True)

    def __mul__(self, o):
        return self._bin(o, lambda a, b: a * b, "*")

    def __rmul__(self, o):
        return self._bin(o, lambda a, b: a * b, "*", True)

    def _zero_div(self, num, den, kind):
        if bool(SymBool(den == 0)):
            if kind == DEC:
                if bool(SymBool(num == 0)):
                    raise decimal.InvalidOperation([decimal.DivisionUndefined])
                raise decimal.DivisionByZero([decimal.DivisionByZero])
            raise ZeroDivisionError("division by zero")

    def _truediv(self, o, reflected):
        l = _lift(o)
        if l is None:
            return NotImplemented
        if _builtin_isinstance(l, _NonFinite):
            return self._nonfinite_arith(l, "/", reflected)
        oe, ok = l
        kind = _res_kind(self.kind, ok, "/")
        if kind == INT:
            kind = FLT
        a, b = (oe, self.e) if reflected else (self.e, oe)
        ratio = None
        if not reflected and self.kind == INT and _builtin_isinstance(o, _builtin_int) and not _builtin_isinstance(o, bool) and o > 0:
            ratio = (self.e, o)
        a, b = _real(a), _real(b)
        self._zero_div(a, b, kind)
        res = Sym(a / b, kind)
        res._ratio = ratio
        return res

    def __truediv__(self, o):
        return self._truediv(o, False)

    def __rtruediv__(self, o):
        return self._truediv(o, True)

    def _floordiv(self, o, reflected, want_mod=False):
        l = _lift(o)
        if l is None or _builtin_isinstance(l, _NonFinite):
            return NotImplemented
        oe, ok = l
        kind = _res_kind(self.kind, ok, "//")
        a, b = (oe, self.e) if reflected else (self.e, oe)
        if kind == INT:
            self._zero_div(a, b, INT)
            if RELAX_INT:
                q = _relaxed_floor(_real(a) / _real(b), "floor")
                if want_mod:
                    return Sym(_real(a) - q * _real(b), INT)
                return Sym(q, INT)
            # python floor semantics; z3 div is euclidean (floor for positive divisor)
            if z3.is_int_value(z3.simplify(b)):
                q = z3.If(b > 0, a / b, (-a) / (-b))
            else:
                # symbolic divisor: define the quotient by its (exact) characterisation instead of z3's non-linear div
                q = cur().fresh("quot", "int")
                cur().add(z3.If(b > 0, z3.And(q * b <= a, a < q * b + b), z3.And(q * b >= a, a > q * b + b)))
            if want_mod:
                return Sym(a - q * b, INT)
            return Sym(q, INT)
        a, b = _real(a), _real(b)
        self._zero_div(a, b, kind)
        if kind == DEC:
            q = _real(_trunc_int(a / b))  # Decimal // truncates toward zero
        else:
            q = _relaxed_floor(a / b) if RELAX_INT else z3.ToReal(z3.ToInt(a / b))
        if want_mod:
            return Sym(a - q * b, kind)
        return Sym(q, kind)

    def __floordiv__(self, o):
        return self._floordiv(o, False)

    def __rfloordiv__(self, o):
        return self._floordiv(o, True)

    def __mod__(self, o):
        return self._floordiv(o, False, True)

    def __rmod__(self, o):
        return self._floordiv(o, True, True)

    def __pow__(self, o, mod=None):
        if _builtin_isinstance(o, Sym):
            m = None
            if o.kind == INT:
                m = _small_int_value(o)
            if m is None:
                return sym_pow(self, o)
            o = m
        if _builtin_isinstance(o, _D) and o == o.to_integral_value():
            o = _builtin_int(o)
        if _builtin_isinstance(o, _builtin_float) and o == _builtin_int(o) and abs(o) < 64 and self.kind != DEC:
            o_i = _builtin_int(o)
            r = self.__pow__(o_i)
            return Sym(_real(r.e), FLT) if _builtin_isinstance(r, Sym) else r
        if _builtin_isinstance(o, _builtin_int) and not _builtin_isinstance(o, bool):
            if o == 0:
                return {INT: 1, DEC: _D(1), FLT: 1.0}[self.kind]
            if abs(o) <= 64:
                e = self.e
                r = e
                for _ in range(abs(o) - 1):
                    r = r * e
                if o > 0:
                    return Sym(r, self.kind)
                kind = FLT if self.kind == INT else self.kind
                self._zero_div(z3.RealVal(1), _real(e), kind)
                return Sym(1 / _real(r), kind)
        if _builtin_isinstance(o, _D) and o == _D("0.5"):
            return self.sqrt()
        if _builtin_isinstance(o, _builtin_float) and o == 0.5:
            return sym_sqrt(self)
        return sym_pow(self, o)

    def __rpow__(self, o):
        return sym_pow(o, self)

    def __neg__(self):
        return Sym(-self.e, self.kind)

    def __pos__(self):
        return self

    def __abs__(self):
        return Sym(z3.If(self.e >= 0, self.e, -self.e), self.kind)

    def _cmp(self, o, f, op):
        l = _lift(o)
        if l is None:
            return NotImplemented
        if _builtin_isinstance(l, _NonFinite):
            if l.nan:
                return op == "!="
            if op in ("<", "<="):
                return l.sign > 0
            if op in (">", ">="):
                return l.sign < 0
            return op == "!="
        oe, ok = l
        if self._rnd is not None and not _builtin_isinstance(o, (Sym, SymBool)):
            r = self._cmp_rounded(o, op)
            if r is not None:
                return r
        a, b = self.e, oe
        if a.sort() != b.sort():
            a, b = _real(a), _real(b)
        return SymBool(f(a, b))

    def _cmp_rounded(self, o, op):
        """self = round_q(x) compared with the concrete number o, without ToInt"""
        x, q, mode = self._rnd
        if _builtin_isinstance(o, _builtin_float):
            c = fractions.Fraction(o)
        elif _builtin_isinstance(o, _D):
            c = fractions.Fraction(o)
        else:
            c = fractions.Fraction(_builtin_int(o))
        y = x / _frac_to_z3(q)
        cq = c / q
        fl = cq.numerator // cq.denominator
        ce = -((-cq.numerator) // cq.denominator)
        half = fractions.Fraction(1, 2)

        def ge(K):  # idx >= K
            if mode == decimal.ROUND_HALF_EVEN:
                b = _frac_to_z3(K - half)
                return z3.Or(y > b, y == b) if K % 2 == 0 else y > b
            if mode == decimal.ROUND_FLOOR:
                return y >= K
            if mode == decimal.ROUND_DOWN:
                return y >= K if K > 0 else y > K - 1
            return None

        def le(K):  # idx <= K
            if mode == decimal.ROUND_HALF_EVEN:
                b = _frac_to_z3(K + half)
                return z3.Or(y < b, y == b) if K % 2 == 0 else y < b
            if mode == decimal.ROUND_FLOOR:
                return y < K + 1
            if mode == decimal.ROUND_DOWN:
                return y < K + 1 if K >= 0 else y <= K
            return None

        if op == ">=":
            r = ge(ce)
        elif op == ">":
            r = ge(fl + 1)
        elif op == "<=":
            r = le(fl)
        elif op == "<":
            r = le(ce - 1)
        elif op in ("==", "!="):
            if fl != ce:
                return op == "!="
            g, l_ = ge(fl), le(fl)
            if g is None or l_ is None:
                return None
            r = z3.And(g, l_)
            if op == "!=":
                r = z3.Not(r)
        else:
            return None
        return None if r is None else SymBool(r)

    def __lt__(self, o):
        return self._cmp(o, lambda a, b: a < b, "<")

    def __le__(self, o):
        return self._cmp(o, lambda a, b: a <= b, "<=")

    def __gt__(self, o):
        return self._cmp(o, lambda a, b: a > b, ">")

    def __ge__(self, o):
        return self._cmp(o, lambda a, b: a >= b, ">=")

    def __eq__(self, o):
        r = self._cmp(o, lambda a, b: a == b, "==")
        return False if r is NotImplemented else r

    def __ne__(self, o):
        r = self._cmp(o, lambda a, b: a != b, "!=")
        return True if r is NotImplemented else r

    __hash__ = None

    def __bool__(self):
        return cur().branch(self.e != 0)

    # ---- int protocol bits
    def __rshift__(self, n):
        if self.kind != INT or not _builtin_isinstance(n, _builtin_int):
            raise Unsupported(">> on non-int")
        return self // (1 << n)

    def __lshift__(self, n):
        if self.kind != INT or not _builtin_isinstance(n, _builtin_int):
            raise Unsupported("<< on non-int")
        return self * (1 << n)

    def __and__(self, m):
        if self.kind != INT or not _builtin_isinstance(m, _builtin_int) or m < 0:
            raise Unsupported("& on non-int")
        # only contiguous low masks or single bits, for non-negative self
        if m & (m + 1) == 0:
            return self % (m + 1)
        if m & (m - 1) == 0:
            return ((self // m) % 2) * m
        raise Unsupported("& with general mask")

    __rand__ = __and__

    # ---- Decimal / float API
    def _quant(self, q_frac: fractions.Fraction, rounding):
        q = _frac_to_z3(q_frac)
        x = _real(self.e) / q
        if ROUND_MODE == "uf":
            # over-approximation: an uninterpreted function with the bracketing axiom (no integrality).
            # Sound for proving obligations; a refutation is only a candidate and must replay.
            ex = cur()
            xs = z3.simplify(x)
            key = (str(rounding), xs.get_id())
            r = ex.round_memo.get(key)
            if r is not None:
                return r[0], q
            r = ex.fresh("rnd")
            ex.round_memo[key] = (r, xs)  # keep xs alive so that its id is not reused
            if rounding in (None, decimal.ROUND_HALF_EVEN, decimal.ROUND_HALF_UP, decimal.ROUND_HALF_DOWN):
                ax = z3.And(r - x <= z3.RealVal("1/2"), x - r <= z3.RealVal("1/2"))
            elif rounding == decimal.ROUND_FLOOR:
                ax = z3.And(r <= x, x - r < 1)
            elif rounding == decimal.ROUND_CEILING:
                ax = z3.And(r >= x, r - x < 1)
            elif rounding == decimal.ROUND_DOWN:
                ax = z3.And(z3.If(x >= 0, z3.And(r <= x, x - r < 1, r >= 0), z3.And(r >= x, r - x < 1, r <= 0)))
            elif rounding == decimal.ROUND_UP:
                ax = z3.And(z3.If(x >= 0, z3.And(r >= x, r - x < 1), z3.And(r <= x, x - r < 1)))
            else:
                raise Unsupported(f"rounding {rounding}")
            cur().add(ax)
            return r, q
        fl_i = z3.ToInt(x)
        fl = z3.ToReal(fl_i)
        fr = x - fl
        half = z3.RealVal("1/2")
        if rounding in (decimal.ROUND_DOWN,):
            r = z3.If(x >= 0, fl, z3.If(fr == 0, fl, fl + 1))
        elif rounding == decimal.ROUND_FLOOR:
            r = fl
        elif rounding == decimal.ROUND_CEILING:
            r = z3.If(fr == 0, fl, fl + 1)
        elif rounding == decimal.ROUND_UP:
            r = z3.If(x >= 0, z3.If(fr == 0, fl, fl + 1), fl)
        elif rounding == decimal.ROUND_HALF_UP:
            r = z3.If(x >= 0, z3.If(fr >= half, fl + 1, fl), z3.If(fr > half, fl + 1, fl))
        elif rounding == decimal.ROUND_HALF_DOWN:
            r = z3.If(x >= 0, z3.If(fr > half, fl + 1, fl), z3.If(fr >= half, fl + 1, fl))
        elif rounding in (None, decimal.ROUND_HALF_EVEN):
            even = fl_i % 2 == 0
            r = z3.If(fr < half, fl, z3.If(fr > half, fl + 1, z3.If(even, fl, fl + 1)))
        else:
            raise Unsupported(f"rounding {rounding}")
        return r, q

    def quantize(self, exp, rounding=None, context=None):
        if _builtin_isinstance(exp, Sym):
            raise Unsupported("symbolic quantize exponent")
        exp = _D(exp)
        qf = fractions.Fraction(_D(1).scaleb(exp.as_tuple().exponent))
        if rounding is None:
            rounding = decimal.getcontext().rounding
        r, q = self._quant(qf, rounding)
        return Sym(r * q, DEC if self.kind != FLT else FLT, rnd=(_real(self.e), qf, rounding))

    def __round__(self, n=None):
        if n is None and self._ratio is not None and not RELAX_INT:
            num, den = self._ratio
            q = num / den  # z3 integer division: floor for a positive divisor
            rem2 = 2 * (num - q * den)
            up = z3.Or(rem2 > den, z3.And(rem2 == den, q % 2 != 0))
            return Sym(z3.If(up, q + 1, q), INT)
        if n is None:
            r, _ = self._quant(fractions.Fraction(1), decimal.ROUND_HALF_EVEN)
            return Sym(z3.ToInt(r), INT)
        if self.kind == INT:
            if n >= 0:
                return self
            raise Unsupported("round int negative digits")
        qf = fractions.Fraction(10) ** (-n)
        r, q = self._quant(qf, decimal.ROUND_HALF_EVEN)
        return Sym(r * q, self.kind, rnd=(_real(self.e), qf, decimal.ROUND_HALF_EVEN))

    def to_integral_value(self, rounding=None, context=None):
        r, _ = self._quant(fractions.Fraction(1), rounding or decimal.getcontext().rounding)
        return Sym(r, DEC)

    to_integral = to_integral_value
    to_integral_exact = to_integral_value

    def sqrt(self, context=None):
        return sym_sqrt(self)

    def is_finite(self):
        return True

    def is_nan(self):
        return False

    def is_zero(self):
        return self == 0

    def is_signed(self):
        return self < 0

    def is_integer(self):
        if self.kind == INT:
            return True
        return SymBool(z3.ToReal(z3.ToInt(self.e)) == self.e)

    def copy_abs(self):
        return abs(self)

    def normalize(self, context=None):
        return self

    def max(self, o):
        return ite(self >= o, self, o)

    def min(self, o):
        return ite(self <= o, self, o)

    def conjugate(self):
        return self

    @property
    def real(self):
        return self

    def __trunc__(self):
        return sym_int(self)

    def __floor__(self):
        if self.kind == INT:
            return self
        if RELAX_INT:
            return Sym(_relaxed_floor(self.e, "floor"), INT)
        return Sym(z3.ToInt(self.e), INT)

    def __ceil__(self):
        if self.kind == INT:
            return self
        if RELAX_INT:
            return Sym(-_relaxed_floor(-self.e, "floor"), INT)
        return Sym(-z3.ToInt(-self.e), INT)

    # numpy dunder used by pandas for object arrays in some reductions
    def __repr__(self):
        return f"Sym[{self.kind}]({z3.simplify(self.e) if len(_builtin_str(self.e)) < 200 else '...'})"

    def __str__(self):
        return "<sym>"

    def __format__(self, spec):
        return "<sym>"

    def to_str(self):
        return "<sym>"

    @property
    def unit(self):
        return self._unit

    @unit.setter
    def unit(self, v):
        self._unit = v

    def __deepcopy__(self, memo):
        return self

    def __copy__(self):
        return self

    def __reduce__(self):
        raise Unsupported("pickling a symbolic value")


def _small_int_value(s: Sym):
    """if an Int term is a numeral return it"""
    e = z3.simplify(s.e)
    if z3.is_int_value(e):
        return e.as_long()
    return None


# -- uninterpreted transcendental functions (axioms are added by the harness that needs them)
_UF = {}


def uf(name, arity=1):
    key = (name, arity)
    if key not in _UF:
        _UF[key] = z3.Function(name, *([z3.RealSort()] * (arity + 1)))
    return _UF[key]


def _to_real_term(x):
    l = _lift(x)
    if l is None or _builtin_isinstance(l, _NonFinite):
        raise Unsupported(f"cannot lift {type(x)}")
    return _real(l[0]), l[1]


def sym_sqrt(x):
    e, k = _to_real_term(x)
    ex = cur()
    if bool(SymBool(e < 0)):
        if k == DEC:
            raise decimal.InvalidOperation([decimal.InvalidOperation])
        raise ValueError("math domain error")
    r = ex.fresh("sqrt")
    ex.add(z3.And(r >= 0, r * r == e))
    return Sym(r, DEC if k == DEC else FLT)


def sym_pow(a, b):
    ea, ka = _to_real_term(a)
    eb, kb = _to_real_term(b)
    if {ka, kb} == {DEC, FLT}:
        raise TypeError("unsupported operand type(s) for ** or pow(): 'decimal.Decimal' and 'float'")
    kind = DEC if DEC in (ka, kb) else FLT
    return Sym(uf("pow", 2)(ea, eb), kind)


LOG_HOOK = None  # harness-provided: (x_real_term, base) -> None, adds the stub's contract (axioms) for this application


def sym_log(x, base=None):
    e, k = _to_real_term(x)
    if bool(SymBool(e <= 0)):
        raise ValueError("math domain error")
    if base is None:
        return Sym(uf("ln")(e), FLT)
    eb, _ = _to_real_term(base)
    y = uf("log", 2)(e, eb)
    if LOG_HOOK is not None:
        LOG_HOOK(e, base, y)
    return Sym(y, FLT)


def sym_int(x):
    """int(x): truncation toward zero"""
    if _builtin_isinstance(x, Sym):
        if x.kind == INT:
            return x
        return Sym(_trunc_int(x.e), INT)
    if _builtin_isinstance(x, SymBool):
        return x._as_sym()
    return _builtin_int(x)


def sym_float(x):
    if _builtin_isinstance(x, Sym):
        return Sym(_real(x.e), FLT)
    if _builtin_isinstance(x, SymBool):
        return Sym(_real(x._as_sym().e), FLT)
    return _builtin_float(x)


def sym_dec(x):
    """Decimal(x) for a symbolic x"""
    if x.kind == DEC:
        return x
    return Sym(_real(x.e), DEC, x._unit)


def ite(c, a, b):
    """if-then-else that does not fork (for oracles)."""
    if _builtin_isinstance(c, bool):
        return a if c else b
    if not _builtin_isinstance(c, SymBool):
        return a if c else b
    if _builtin_isinstance(a, (bool, SymBool)) and _builtin_isinstance(b, (bool, SymBool)):
        ae = a.e if _builtin_isinstance(a, SymBool) else z3.BoolVal(a)
        be = b.e if _builtin_isinstance(b, SymBool) else z3.BoolVal(b)
        return SymBool(z3.If(c.e, ae, be))
    la, lb = _lift(a), _lift(b)
    if la is None or lb is None or _builtin_isinstance(la, _NonFinite) or _builtin_isinstance(lb, _NonFinite):
        return a if bool(c) else b
    (ea, ka), (eb, kb) = la, lb
    kind = ka if ka == kb else (DEC if DEC in (ka, kb) else FLT)
    if kind != INT:
        ea, eb = _real(ea), _real(eb)
    return Sym(z3.If(c.e, ea, eb), kind)


def smax(*xs):
    r = xs[0]
    for x in xs[1:]:
        r = ite(r >= x, r, x)
    return r


def smin(*xs):
    r = xs[0]
    for x in xs[1:]:
        r = ite(r <= x, r, x)
    return r


def sabs(x):
    return ite(x >= 0, x, -x)


def sand(*cs):
    out = []
    for c in cs:
        if _builtin_isinstance(c, SymBool):
            out.append(c.e)
        elif _builtin_isinstance(c, Sym):
            out.append(c.e != 0)
        elif not c:
            return False
    if not out:
        return True
    return SymBool(z3.And(*out))


def sor(*cs):
    out = []
    for c in cs:
        if _builtin_isinstance(c, SymBool):
            out.append(c.e)
        elif _builtin_isinstance(c, Sym):
            out.append(c.e != 0)
        elif c:
            return True
    if not out:
        return False
    return SymBool(z3.Or(*out))


def snot(c):
    if _builtin_isinstance(c, SymBool):
        return SymBool(z3.Not(c.e))
    return not c


def implies(a, b):
    return sor(snot(a), b)


def is_sym(x):
    return _builtin_isinstance(x, (Sym, SymBool))


# ------------------------------------------------------------------------------------------------ model evaluation


def model_value(model, e, kind):
    """evaluate z3 term under model -> python value of the right kind (Fraction for reals)"""
    v = model.eval(e, model_completion=True)
    if z3.is_int_value(v):
        return v.as_long()
    if z3.is_rational_value(v):
        return fractions.Fraction(v.numerator_as_long(), v.denominator_as_long())
    if z3.is_algebraic_value(v):
        a = v.approx(40)
        return fractions.Fraction(a.numerator_as_long(), a.denominator_as_long())
    if z3.is_true(v):
        return True
    if z3.is_false(v):
        return False
    raise Unsupported(f"cannot evaluate {v}")


def eval_any(model, x):
    if _builtin_isinstance(x, Sym):
        return model_value(model, x.e, x.kind)
    if _builtin_isinstance(x, SymBool):
        return model_value(model, x.e, "bool")
    return x
