"""Aave v3: world builder (real AaveV3Market + real Broker) and an independent oracle written from the
Aave v3 definitions (not calling the market's own valuation)."""
from __future__ import annotations

import csv
import os
from datetime import datetime, timedelta
from decimal import Decimal
from fractions import Fraction

import pandas as pd

from ..harness import REPO
from ..symx import ite, smax, smin, sabs, sand, sor, snot

RISK_CSV = os.path.join(os.path.dirname(os.path.abspath(__file__)), "risk_fixture.csv")  # demo.csv rows + NOCOLL / NOBORROW
SHADOWS = (
    "demeter.aave.market",
    "demeter.aave.core",
    "demeter.aave.helper",
    "demeter.aave._typing",
    "demeter.broker._typing",
    "demeter.broker.broker",
    "demeter.utils.application",
)
COLS = ["liquidity_rate", "stable_borrow_rate", "variable_borrow_rate", "liquidity_index", "variable_borrow_index"]
T0 = datetime(2023, 8, 1, 0, 0)


def risk_table():
    """risk parameters read independently of demeter's loader: symbol -> dict(ltv, lt, bonus, coll, borrow)"""
    out = {}
    for r in csv.DictReader(open(RISK_CSV)):
        sym = r["symbol"]
        if sym == "USDC":
            sym = "USDC" if r["name"] == "USD Coin" else "USDC.E"
        out[sym] = dict(
            ltv=Decimal(r["baseLTVasCollateral"]) / 10000,
            lt=Decimal(r["reserveLiquidationThreshold"]) / 10000,
            bonus=(Decimal(r["reserveLiquidationBonus"]) - 10000) / 10000,
            coll=r["usageAsCollateralEnabled"] == "True",
            borrow=r["borrowingEnabled"] == "True",
        )
    return out


def _neighbour_market(token_names):
    """ANOTHER Aave market in the same process, built from a risk table in which every LTV / threshold / bonus differs, used
    (supply, borrow, every risk view read, one end-of-bar update) before the market under test exists: nothing the two markets share
    at class or module level may carry its risk parameters over"""
    import tempfile
    from demeter import TokenInfo, MarketInfo, MarketTypeEnum, Broker, MarketStatus
    from demeter.aave import AaveV3Market

    rows = list(csv.DictReader(open(RISK_CSV)))
    for r in rows:
        for col, d in (("baseLTVasCollateral", -1500), ("reserveLiquidationThreshold", -1200), ("reserveLiquidationBonus", 300)):
            try:
                v = int(r[col])
            except (TypeError, ValueError):
                continue
            if v > 0:
                r[col] = str(max(v + d, 100))
    f = tempfile.NamedTemporaryFile("w", suffix=".csv", delete=False, newline="")
    wr = csv.DictWriter(f, fieldnames=list(rows[0].keys()))
    wr.writeheader()
    wr.writerows(rows)
    f.close()
    try:
        toks = {n: TokenInfo(n, 18) for n in token_names}
        m = AaveV3Market(MarketInfo("aave_other", MarketTypeEnum.aave_v3), f.name, tokens=list(toks.values()))
        b = Broker()
        b.add_market(m)
        names = list(token_names)
        idx = pd.MultiIndex.from_product([names, COLS])
        data = []
        for n in names:
            data += [Decimal("0.02"), Decimal("0.05"), Decimal("0.04"), Decimal(1), Decimal(1)]
        st = MarketStatus(T0 - timedelta(minutes=5))
        st.data = pd.Series(index=idx, data=data, dtype=object)
        m.set_market_status(data=st, price=pd.Series({n: Decimal(1) for n in names}, dtype=object))
        risk = risk_table()
        for n in names:
            b.set_balance(toks[n], Decimal(1000))
        for n in names:
            try:
                m.supply(toks[n], Decimal(100), risk[n]["coll"])
            except Exception:
                pass
        for n in names:
            try:
                m.borrow(toks[n], Decimal(5))
            except Exception:
                pass
        warm_views(m)
        for n in names:
            try:
                m.get_max_withdraw_amount(toks[n])
                m.get_max_borrow_amount(toks[n])
            except Exception:
                pass
        m.update()
    finally:
        os.unlink(f.name)


class AaveWorld:
    def __init__(self, ctx, token_names, decimals=None):
        from demeter import TokenInfo, MarketInfo, MarketTypeEnum, Broker
        from demeter.aave import AaveV3Market

        self.ctx = ctx
        if getattr(ctx, "p", {}).get("neighbour_market"):
            _neighbour_market(token_names)
        decimals = decimals if decimals is not None else {"USDC": 6, "USDT": 6}  # as on chain
        self.tokens = {n: TokenInfo(n, decimals.get(n, 18)) for n in token_names}
        self.names = list(token_names)
        self.actions = []
        self.market = AaveV3Market(MarketInfo("aave", MarketTypeEnum.aave_v3), RISK_CSV, tokens=list(self.tokens.values()))
        self.broker = Broker(record_action_callback=self.actions.append)
        self.broker.add_market(self.market)
        self.risk = risk_table()
        self.bar = 0
        self.row = None
        self.price = None

    def tok(self, n):
        return self.tokens[n]

    def set_row(self, li: dict, bi: dict, price: dict, rates=None):
        """install a market row through the public set_market_status (a new bar)"""
        from demeter import MarketStatus

        idx = pd.MultiIndex.from_product([self.names, COLS])
        data = []
        for n in self.names:
            r = (rates or {}).get(n, (Decimal("0.02"), Decimal("0.05"), Decimal("0.04")))
            data += [r[0], r[1], r[2], li[n], bi[n]]
        st = MarketStatus(T0 + timedelta(minutes=self.bar))
        st.data = pd.Series(index=idx, data=data, dtype=object)
        pr = pd.Series({n: price[n] for n in self.names}, dtype=object)
        self.market.set_market_status(data=st, price=pr)
        self.bar += 1
        self.row = dict(li=dict(li), bi=dict(bi))
        self.price = dict(price)

    def install_state(self, supplies: dict, borrows: dict):
        """direct-state pre-state: name -> (base_amount, collateral) / name -> base_amount.
        Representation invariant: base amounts positive (dust excluded by the caller); every such state is reachable
        through supply/borrow at an earlier row with suitable prices."""
        from demeter.aave import SupplyInfo, BorrowInfo

        for n, (b, c) in supplies.items():
            self.market._supplies[self.tok(n)] = SupplyInfo(b, c, Decimal(1))
        for n, b in borrows.items():
            self.market._borrows[self.tok(n)] = BorrowInfo(b, Decimal(1))
        for c in ("_collaterals_amount_cache", "_supplies_amount_cache", "_supplies_cache", "_borrows_amount_cache", "_borrows_cache"):
            getattr(self.market, c).reset()

    # ---- raw state readers (no demeter valuation code)
    def raw(self):
        m = self.market
        sup = {t.name: (s.base_amount, s.collateral) for t, s in m._supplies.items()}
        bor = {t.name: b.base_amount for t, b in m._borrows.items()}
        wal = {t.name: a.balance for t, a in self.broker._assets.items()}
        return dict(sup=sup, bor=bor, wal=wal, n_actions=len(self.actions))

    # ---- oracle from the Aave v3 definitions
    def o_supply_amount(self, st, n):
        return st["sup"][n][0] * self.row["li"][n]

    def o_borrow_amount(self, st, n):
        return st["bor"][n] * self.row["bi"][n]

    def o_values(self, st):
        sv = {n: self.o_supply_amount(st, n) * self.price[n] for n in st["sup"]}
        cv = {n: sv[n] for n in st["sup"] if st["sup"][n][1]}
        bv = {n: self.o_borrow_amount(st, n) * self.price[n] for n in st["bor"]}
        return sv, cv, bv

    def o_totals(self, st):
        sv, cv, bv = self.o_values(st)
        S = sum(sv.values(), Decimal(0))
        C = sum(cv.values(), Decimal(0))
        B = sum(bv.values(), Decimal(0))
        LT = sum((cv[n] * self.risk[n]["lt"] for n in cv), Decimal(0))  # threshold-weighted collateral
        LV = sum((cv[n] * self.risk[n]["ltv"] for n in cv), Decimal(0))  # ltv-weighted collateral
        return dict(S=S, C=C, B=B, LT=LT, LV=LV)

    def o_net_value(self, st):
        t = self.o_totals(st)
        return t["S"] - t["B"]


def states_equal(ctx, a, b, prefix, exact=True):
    """emit one obligation per state component: a (before) == b (after)"""
    ok = True
    for part in ("sup", "bor", "wal"):
        if set(a[part]) != set(b[part]):
            ctx.check(f"{prefix}: {part} key set unchanged", False)
            ok = False
            continue
        for k in a[part]:
            if part == "sup":
                ok &= ctx.check(f"{prefix}: supply[{k}].base_amount unchanged", a[part][k][0] == b[part][k][0])
                ok &= ctx.check(f"{prefix}: supply[{k}].collateral unchanged", a[part][k][1] == b[part][k][1])
            elif part == "bor":
                ok &= ctx.check(f"{prefix}: borrow[{k}].base_amount unchanged", a[part][k] == b[part][k])
            else:
                ok &= ctx.check(f"{prefix}: wallet[{k}] unchanged", a[part][k] == b[part][k])
    ok &= ctx.check(f"{prefix}: action log unchanged", a["n_actions"] == b["n_actions"])
    return ok


# ------------------------------------------------------------------------------------------ symbolic portfolios

# shape: {token: (supply_mode, has_debt)} with supply_mode in (None, "C", "N")
SHAPES_QUICK = {
    "A": {"WETH": ("C", False), "DAI": (None, True)},
    "B": {"WETH": ("C", True), "USDC": ("C", False), "DAI": (None, True)},
    "C": {"WETH": ("C", False), "WMATIC": ("N", False), "USDT": (None, True)},
    "D": {"WETH": ("N", False), "DAI": (None, False)},
    "E": {"WETH": ("C", False), "DAI": (None, False)},
    "F": {"NOBORROW": ("C", False), "NOCOLL": ("N", False), "DAI": (None, True)},
}
SHAPES_THOROUGH = dict(SHAPES_QUICK)
SHAPES_THOROUGH.update(
    {
        "G": {"WETH": ("C", True), "DAI": ("C", True)},
        "H": {"WMATIC": ("C", False), "USDC": ("N", True), "DAI": ("C", False)},
        "I": {"WETH": ("N", False), "USDC": ("C", False), "USDT": (None, True), },
        "J": {"WETH": ("C", False), "USDC": ("C", False), "WMATIC": ("C", False)},
        "K": {"NOCOLL": ("N", True), "WETH": ("C", False)},
        "L": {"DAI": ("C", True)},
    }
)


def sym_portfolio(ctx, shape, wallet=True, idx_hi=4, same_index=False):
    """real market + broker in an arbitrary valid state of the given shape; returns the world.
    Symbolic: scaled balances (dust excluded: >= 1e-9), liquidity / borrow index and price per token, wallet."""
    names = list(shape)
    w = AaveWorld(ctx, names)
    li, bi, pr = {}, {}, {}
    for n in names:
        li[n] = ctx.dec(f"li_{n}", 1, idx_hi)
        bi[n] = li[n] if same_index else ctx.dec(f"bi_{n}", 1, idx_hi)
        pr[n] = ctx.dec(f"p_{n}", Decimal("0.001"), 10**5)
        w.broker.set_balance(w.tok(n), ctx.dec(f"wal_{n}", 0, 10**9) if wallet else Decimal(0))
    w.set_row(li, bi, pr)
    sup, bor = {}, {}
    for n, (mode, debt) in shape.items():
        if mode:
            sup[n] = (ctx.dec(f"s_{n}", Decimal("1e-9"), 10**9), mode == "C")
        if debt:
            bor[n] = ctx.dec(f"b_{n}", Decimal("1e-9"), 10**9)
    w.install_state(sup, bor)
    return w


def warm_views(m):
    """read every derived view (warms all five caches); returns them as a flat dict of numbers/flags"""
    out = {}
    for t, s in m.supplies.items():
        out[f"supplies[{t.name}].amount"] = s.amount
        out[f"supplies[{t.name}].value"] = s.value
        out[f"supplies[{t.name}].collateral"] = s.collateral
        out[f"supplies[{t.name}].base"] = s.base_amount
    for t, b in m.borrows.items():
        out[f"borrows[{t.name}].amount"] = b.amount
        out[f"borrows[{t.name}].value"] = b.value
    for t, v in m.supplies_value.items():
        out[f"supplies_value[{t.name}]"] = v
    for t, v in m.collateral_value.items():
        out[f"collateral_value[{t.name}]"] = v
    for t, v in m.borrows_value.items():
        out[f"borrows_value[{t.name}]"] = v
    out["total_supply_value"] = m.total_supply_value
    out["total_collateral_value"] = m.total_collateral_value
    out["total_borrows_value"] = m.total_borrows_value
    out["health_factor"] = m.health_factor
    out["ltv"] = m.ltv
    out["max_ltv"] = m.max_ltv
    out["liquidation_threshold"] = m.liquidation_threshold
    return out
