"""Net-value worlds shared by C01 (reported net value == independent valuation) and C03 (frozen-market operations never
create value / negative holdings / over-redemption).

Every world wraps real demeter objects (a real Broker with one or more real markets) in an arbitrary valid pre-state whose
numbers are symbolic, and offers
  * prices()            the price vector handed to Broker.get_account_status (account quote token priced 1)
  * raw()               a snapshot of the raw state (wallet balances, position containers) -- no demeter valuation code
  * oracle(raw)         the harness's own valuation of that snapshot in the account quote token, written from the
                        definitions in the property (v3 closed forms, scaled balance x index x price, ...)
  * report_tol(raw)     absolute tolerance that is the implementation's own documented rounding of *reported* figures
  * nonneg(raw)         [(label, condition)] every holding that must never be negative
  * apply(ctx, op)      runs ONE real operation with symbolic arguments; returns an OpResult
The step function `nv_step` below is the scenario body for both properties.
"""
from __future__ import annotations

from dataclasses import dataclass, field
from decimal import Decimal

from ..symx import ite, sand, sor, snot, smin, smax, sabs, is_sym

D = Decimal
SNAP = D("0.00001")  # Asset.sub: differences below 1e-5 relative are snapped to zero -- the property's own dust allowance
RHO = D("1e-20")  # slack for exact-real vs 35-digit Decimal arithmetic (DESIGN 6.1)


def N(x):
    """oracle-side number: symbolic stays symbolic (decimal kind), concrete Decimal / float / int becomes an exact Fraction so that
    the oracle arithmetic is exact in replays and witness runs"""
    import fractions
    from .. import symx

    if isinstance(x, symx.Sym):
        return symx.Sym(symx._real(x.e), symx.DEC)
    if isinstance(x, symx.SymBool) or isinstance(x, bool):
        return x
    if hasattr(x, "item") and not isinstance(x, Decimal):
        x = x.item()  # numpy scalar -> Python number
    return fractions.Fraction(x)


def Nraw(x):
    """apply N to every number inside a raw-state snapshot (dict / list / tuple of numbers, flags, keys)"""
    from .. import symx

    if isinstance(x, dict):
        return {k: Nraw(v) for k, v in x.items()}
    if isinstance(x, tuple) and hasattr(x, "_fields"):
        return x  # namedtuple keys (PositionInfo): integers that identify, not amounts
    if isinstance(x, (list, tuple)):
        return type(x)(Nraw(v) for v in x)
    if isinstance(x, (symx.Sym, Decimal, float)) or (isinstance(x, int) and not isinstance(x, bool)):
        return N(x)
    return x


PROGRAMMING_ERRORS = ("AttributeError", "TypeError", "NameError", "UnboundLocalError", "ValueError")


@dataclass
class OpResult:
    accepted: bool
    label: str = "accepted"
    kind: str = "lossy"  # "conserve": |dNV| <= dust ; "fee": dNV == -fee_value ; "lossy": dNV <= dust ; "revalue": dNV == revalue
    fee_value: object = 0  # for kind == "fee": the reported fee valued in the account quote token
    revalue: object = 0  # for kind == "revalue": the stated re-valuation (index vs mark price of a lent LP position)
    touched: object = 0  # value (account quote) of the wallet balances the operation touches (dust allowance base)
    extra_dust: object = 0  # additional absolute allowance that is the implementation's documented rounding (stated per market)
    payouts: list = field(default_factory=list)  # (label, amount_paid_out, amount_held_before)
    note: str = ""


def reported(w):
    st = w.broker.get_account_status(w.prices())
    return st


def nv_step(ctx):
    """one (or two) operations at a frozen market from a symbolic pre-state; obligations selected by ctx.p['prop']"""
    p = ctx.p
    prop = p["prop"]
    w = BUILDERS[p["market"]](ctx, p)
    raw0 = Nraw(w.raw())
    o0 = N(w.oracle(raw0))
    r0 = N(reported(w).net_value)
    tol0 = N(w.report_tol(raw0))
    if prop == "C01":
        _c01_checks(ctx, w, raw0, "pre-state")
    ops = [p["op"]] + ([p["op2"]] if p.get("op2") else [])
    if p["op"] is None:
        ctx.outcome("valuation")
        ctx.check("CANARY markets hold nothing", r0 == N(w.wallet_value(raw0)))
        return
    for k, op in enumerate(ops):
        tag = f"{p['market']}.{op}" + ("" if k == 0 else " (second operation)")
        res = w.apply(ctx, op, suffix="" if k == 0 else "_2")
        ctx.outcome(("accepted" if res.accepted else "rejected:" + res.label) + ("" if k == 0 else "#2"))
        if not res.accepted and res.label.split(":")[0] in PROGRAMMING_ERRORS:
            # not a rejection the operation documents: almost certainly a defect (or a harness gap) -- never silently counted as "rejected"
            ctx.check(f"{tag}: the operation does not fail with a programming error ({res.label.split(':')[0]})", False, detail=res.label)
        raw1 = Nraw(w.raw())
        o1 = N(w.oracle(raw1))
        r1 = N(reported(w).net_value)
        tol1 = N(w.report_tol(raw1))
        res.touched, res.extra_dust, res.fee_value, res.revalue = N(res.touched), N(res.extra_dust), N(res.fee_value), N(res.revalue)
        res.payouts = [(a, N(b), N(c)) for a, b, c in res.payouts]
        if prop == "C01":
            _c01_checks(ctx, w, raw1, f"after {tag} [{'accepted' if res.accepted else 'rejected'}]")
        elif prop == "C04":
            if not res.accepted:
                ctx.check_all(_raw_equal(raw0, raw1, f"{tag} rejected[{res.label}]"))
        else:
            dust = N(SNAP) * res.touched * (1 + N(D("1e-9"))) + res.extra_dust + N(RHO) * (sabs(o0) + 1)
            acc = "accepted" if res.accepted else "rejected"
            items = []
            # the property's observation point is the REPORTED net value; the oracle valuation is checked as well so that a
            # stale report cannot hide (or fake) a change of the real holdings
            # a position lent to / returned from a vault is re-valued (index vs mark price of its oSQTH part): stated, not value creation
            rv = res.revalue if (res.accepted and res.kind == "revalue") else 0
            items.append((f"{tag} [{acc}]: net value (independent valuation) does not rise by more than wallet dust", o1 <= o0 + rv + dust))
            items.append((f"{tag} [{acc}]: reported net value does not rise by more than wallet dust", r1 <= r0 + rv + dust + tol0 + tol1))
            if res.accepted:
                if res.kind == "conserve":
                    items.append((f"{tag}: conserves net value up to wallet dust", sabs(o1 - o0) <= dust))
                    items.append((f"{tag}: conserves the reported net value up to wallet dust", sabs(r1 - r0) <= dust + tol0 + tol1))
                elif res.kind == "fee":
                    items.append((f"{tag}: loses exactly the reported fee", sabs((o0 - o1) - res.fee_value) <= dust))
                    items.append((f"{tag}: reported net value loses exactly the reported fee", sabs((r0 - r1) - res.fee_value) <= dust + tol0 + tol1))
                elif res.kind == "revalue":
                    items.append((f"{tag}: net value moves only by the stated re-valuation of the lent position", sabs((o1 - o0) - res.revalue) <= dust))
            else:
                items.append((f"{tag} [rejected]: a rejected operation does not change net value", sabs(o1 - o0) <= dust))
            for lab, cond in w.nonneg(raw1):
                items.append((f"{tag} [{acc}]: {lab} stays non-negative", cond))
            for lab, paid, held in res.payouts:
                items.append((f"{tag}: pays out no more {lab} than is held", paid <= held * (1 + N(SNAP)) + res.extra_dust))
            ctx.check_all(items)
        raw0, o0, r0, tol0 = raw1, o1, r1, tol1
    if prop in ("C03", "C04"):
        ctx.check("CANARY operations never change the wallet", w.wallet_unchanged())
    else:
        ctx.check("CANARY markets hold nothing", r0 == N(w.wallet_value(raw0)))


def _raw_equal(a, b, prefix, path=""):
    """component-wise equality of two raw-state snapshots -> [(label, condition)]"""
    items = []
    if isinstance(a, dict):
        if set(a) != set(b if isinstance(b, dict) else {}):
            return [(f"{prefix}: {path or 'state'} key set unchanged", False)]
        for k in a:
            if k == "lp":
                continue  # derived amounts (oracle side), not state
            items += _raw_equal(a[k], b[k], prefix, f"{path}.{k}" if path else str(k))
        return items
    if isinstance(a, (list, tuple)) and not hasattr(a, "_fields"):
        if not isinstance(b, (list, tuple)) or len(a) != len(b):
            return [(f"{prefix}: {path} unchanged", False)]
        for i, (x, y) in enumerate(zip(a, b)):
            items += _raw_equal(x, y, prefix, path)
        return items
    import re

    lab = re.sub(r"PositionInfo\([^)]*\)|\b\d+\b", "#", path)
    return [(f"{prefix}: {lab} unchanged", a == b)]


def _c01_checks(ctx, w, raw, when):
    st = reported(w)
    o = N(w.oracle(raw))
    tol = N(w.report_tol(raw))
    wal = N(w.wallet_value(raw))
    rho = N(RHO)
    items = [
        (f"{when}: reported net value == wallet at bar prices + positions valued independently", ctx.close(N(st.net_value), o, rel=rho, abs_=tol)),
        (f"{when}: reported asset value == wallet balances x prices", ctx.close(N(st.asset_value), wal, rel=rho, abs_=rho)),
    ]
    for name, val, mtol in w.market_values(raw):
        items.append((f"{when}: {name} market net value == independent valuation of its positions", ctx.close(N(st.market_status[w.market_key(name)].net_value), N(val), rel=rho, abs_=N(mtol))))
    ctx.check_all(items)


# ======================================================================================================== Aave


class AaveNV:
    def __init__(self, ctx, p):
        from demeter._typing import USD
        from .aave import sym_portfolio

        self.ctx = ctx
        self.w = sym_portfolio(ctx, p["shape"], idx_hi=p.get("idx_hi", 4))
        self.broker = self.w.broker
        self.broker.quote_token = USD
        self._wal0 = dict(self.w.raw()["wal"])
        self.p = p

    def prices(self):
        d = dict(self.w.price)
        d["USD"] = D(1)
        return d

    def raw(self):
        return self.w.raw()

    def wallet_value(self, raw):
        return sum((raw["wal"][n] * N(self.w.price[n]) for n in raw["wal"]), N(0))

    def _market(self, raw):
        """Aave v3 definition: sum of scaled supply x liquidity index x price minus scaled debt x borrow index x price"""
        w = self.w
        sup = sum((raw["sup"][n][0] * N(w.row["li"][n]) * N(w.price[n]) for n in raw["sup"]), N(0))
        bor = sum((raw["bor"][n] * N(w.row["bi"][n]) * N(w.price[n]) for n in raw["bor"]), N(0))
        return sup - bor

    def oracle(self, raw):
        return self.wallet_value(raw) + self._market(raw)

    def report_tol(self, raw):
        return D("0.0001") * (1 + D("1e-9"))  # get_market_balance quantises supplies and borrows to 1e-4 (half a step each)

    def market_values(self, raw):
        return [("aave", self._market(raw), self.report_tol(raw))]

    def market_key(self, name):
        return self.w.market.market_info

    def nonneg(self, raw):
        out = [(f"wallet[{n}]", raw["wal"][n] >= 0) for n in raw["wal"]]
        out += [(f"supply[{n}]", raw["sup"][n][0] >= 0) for n in raw["sup"]]
        out += [(f"debt[{n}]", raw["bor"][n] >= 0) for n in raw["bor"]]
        return out

    def wallet_unchanged(self):
        now = self.w.raw()["wal"]
        return sand(*[now[n] == self._wal0[n] for n in self._wal0])

    def apply(self, ctx, op, suffix=""):
        from .aave_ops import apply_op

        w = self.w
        tok, tok2 = self.p["tok"], self.p.get("tok2")
        before = w.raw()
        if suffix:
            # second operation: fresh argument names
            ok, label, args = _aave_second(ctx, w, op, tok, tok2, suffix)
        else:
            ok, label, args = apply_op(ctx, w, op, tok, tok2)
        after = w.raw()
        touched = before["wal"][tok] * w.price[tok]
        # helper.sub_base_amount clamps scaled residues below 1e-18 to zero (a forgiven / lost residue of at most 1e-18 scaled units),
        # and repay tolerates round(.., 18): the implementation's documented rounding (DESIGN 6.2)
        inv = [tok] + ([tok2] if tok2 else [])
        extra = sum((D("2e-18") * (w.row["li"][n] + w.row["bi"][n]) * w.price[n] for n in inv), D(0))
        payouts = []
        if ok and op == "withdraw":
            held = before["sup"][tok][0] * w.row["li"][tok] if tok in before["sup"] else D(0)
            payouts.append((f"supplied {tok}", after["wal"][tok] - before["wal"][tok], held))
        return OpResult(ok, label, kind="conserve", touched=touched, extra_dust=extra, payouts=payouts)


def _aave_second(ctx, w, op, tok, tok2, suffix):
    from .aave_ops import stem

    m, t = w.market, w.tok(tok)
    try:
        if op == "supply":
            m.supply(t, ctx.dec("amt" + suffix, 0, 10**10), True)
        elif op == "withdraw":
            m.withdraw(t, ctx.dec("amt" + suffix, 0, 10**10))
        elif op == "borrow":
            m.borrow(t, ctx.dec("amt" + suffix, 0, 10**10))
        elif op == "repay":
            m.repay(t, ctx.dec("amt" + suffix, 0, 10**10))
        else:
            raise ValueError(op)
    except Exception as e:
        return False, stem(e), {}
    return True, "accepted", {}


BUILDERS = {"aave": AaveNV}


# ======================================================================================================== Deribit


class DeribitNV:
    """account quote USD, market quote ETH (differs): cash + options at mark, converted by the ETH price"""

    NAME = "ETH-22SEP23-1650-C"
    NAME2 = "ETH-22SEP23-1700-C"

    def __init__(self, ctx, p):
        from demeter._typing import USD
        from .deribit import DeribitWorld, sym_book, _dec

        self.ctx, self.p = ctx, p
        if p.get("neighbour_market"):
            from . import neighbours

            neighbours.deribit()
        self.mark, self.mark2 = 0.0287, 0.0161
        ins = sym_book(ctx, self.NAME, p.get("levels", 2), p.get("levels", 2), mark=self.mark)
        ins2 = sym_book(ctx, self.NAME2, 1, 1, mark=self.mark2, prefix="i2_")
        cash = ctx.dec("cash", 0, 1000)
        wallet = ctx.dec("wallet", 0, 1000)
        self.P = ctx.dec("eth_price", 100, 10000)
        self.w = DeribitWorld(ctx, [ins, ins2], cash=cash, wallet=wallet)
        self.broker = self.w.broker
        self.broker.quote_token = USD
        self.m = self.w.market
        if p.get("hold", True):
            self.w.hold(self.NAME, _dec(ctx.int_("held", 1, 3000)))
        if p.get("hold2"):
            self.w.hold(self.NAME2, _dec(ctx.int_("held2", 1, 3000)))
        self._wal0 = wallet
        self.ins = ins

    def prices(self):
        return {"ETH": self.P, "USD": D(1)}

    def raw(self):
        return self.w.raw()

    def wallet_value(self, raw):
        return sum((raw["wal"][n] * N(self.P) for n in raw["wal"]), N(0))

    def _market_eth(self, raw):
        marks = {self.NAME: N(D(str(self.mark))), self.NAME2: N(D(str(self.mark2)))}
        return raw["cash"] + sum((raw["pos"][k][0] * marks[k] for k in raw["pos"]), N(0))

    def oracle(self, raw):
        return self.wallet_value(raw) + self._market_eth(raw) * N(self.P)

    def report_tol(self, raw):
        return D(0)

    def market_values(self, raw):
        return [("deribit", self._market_eth(raw), D(0))]

    def market_key(self, name):
        return self.m.market_info

    def nonneg(self, raw):
        out = [("wallet", raw["wal"][n] >= 0) for n in raw["wal"]]
        out.append(("option-account cash", raw["cash"] >= 0))
        out += [(f"option amount", raw["pos"][k][0] >= 0) for k in raw["pos"]]
        return out

    def wallet_unchanged(self):
        return sand(*[v == self._wal0 for v in self.w.raw()["wal"].values()])

    def apply(self, ctx, op, suffix=""):
        from .deribit import _dec
        from .aave_ops import stem

        m, p = self.m, self.p
        before = self.w.raw()
        wal = list(before["wal"].values())[0]
        payouts = []
        kind = "lossy"
        try:
            if op == "deposit":
                a = ctx.dec("amt" + suffix, 0, 2000)
                m.deposit(a)
                kind = "conserve"
            elif op == "withdraw":
                a = ctx.dec("amt" + suffix, 0, 2000)
                m.withdraw(a)
                kind = "conserve"
                payouts.append(("option-account cash", a, before["cash"]))
            else:
                n = _dec(ctx.int_("n" + suffix, 0, 5000))
                kw = {}
                if p.get("mode") == "cap":
                    kw["max_mark_price_multiple"] = ctx.dec("cap" + suffix, D("1.0"), D("1.1"))
                elif p.get("mode") == "limit":
                    kw["price_in_token"] = D(str((self.ins["asks"] if op == "buy" else self.ins["bids"])[0][0]))
                (m.buy if op == "buy" else m.sell)(self.NAME, n, **kw)
                if op == "sell":
                    payouts.append(("option contracts", n, before["pos"][self.NAME][0] if self.NAME in before["pos"] else D(0)))
        except Exception as e:
            return OpResult(False, stem(e), touched=wal * self.P)
        return OpResult(True, kind=kind, touched=wal * self.P, payouts=payouts)


# ======================================================================================================== GMX v1


class Gmx1NV:
    def __init__(self, ctx, p):
        from demeter._typing import USD
        from ..props.c17 import v1_world, P30

        self.ctx, self.p = ctx, p
        if p.get("neighbour_market"):
            from . import neighbours

            neighbours.gmx1()
        self.m, self.broker, self.toks, self.row, self.actions = v1_world(ctx, p["shape"], p["token"])
        self.broker.quote_token = USD
        self.tok = self.toks[p["token"]]
        self.m.glp_amount = ctx.dec("held_glp", 0, 10**7)
        self.m.reward = ctx.dec("reward", 0, 100)
        self._wal0 = ctx.dec("wallet", 0, 10**6)
        self.broker.set_balance(self.tok, self._wal0)
        # account prices are the ones the row implies (Actuator takes them from the same data)
        self.price = {self.toks[t].name: D(self.row[f"{t}_price"]) / D(P30) for t in self.toks}

    def prices(self):
        d = dict(self.price)
        d["USD"] = D(1)
        return d

    def raw(self):
        return dict(glp=self.m.glp_amount, reward=self.m.reward, wal={t.name: a.balance for t, a in self.broker._assets.items()}, n_actions=len(self.actions))

    def wallet_value(self, raw):
        return sum((raw["wal"][n] * N(self.price[n]) for n in raw["wal"]), N(0))

    def _market(self, raw):
        return raw["glp"] * N(D(self.row["glp_price"])) + raw["reward"] * N(self.price[self.toks["wavax"].name])

    def oracle(self, raw):
        return self.wallet_value(raw) + self._market(raw)

    def report_tol(self, raw):
        return D(0)

    def market_values(self, raw):
        return [("gmx", self._market(raw), D(0))]

    def market_key(self, name):
        return self.m.market_info

    def nonneg(self, raw):
        return [("wallet", sand(*[raw["wal"][n] >= 0 for n in raw["wal"]])), ("GLP holding", raw["glp"] >= 0), ("reward", raw["reward"] >= 0)]

    def wallet_unchanged(self):
        return self.broker.get_token_balance(self.tok) == self._wal0

    def apply(self, ctx, op, suffix=""):
        from .aave_ops import stem

        before = self.raw()
        touched = before["wal"][self.tok.name] * self.price[self.tok.name]
        # GLP is minted / redeemed in whole 1e-18 units and USDG in whole units: a few units of round-down, always against the user;
        # the row's glp_price (a float-derived figure) may differ from aum / supply in the last digits: stated self-consistency 1e-9
        extra = D("1e-9") * (before["glp"] * D(self.row["glp_price"]) + touched + 1)
        payouts = []
        try:
            if op == "buy_glp":
                a = ctx.dec("amount" + suffix, 0, 10**7)
                self.m.buy_glp(self.tok, a)
            elif op == "sell_glp":
                g = ctx.dec("glp" + suffix, 0, 2 * 10**7)
                self.m.sell_glp(self.tok, g)
                payouts.append(("GLP", ite(g == 0, before["glp"], g), before["glp"]))
            else:
                raise ValueError(op)
        except Exception as e:
            return OpResult(False, stem(e), touched=touched, extra_dust=extra)
        return OpResult(True, kind="lossy", touched=touched, extra_dust=extra, payouts=payouts)


# ======================================================================================================== GMX v2


class Gmx2NV:
    def __init__(self, ctx, p):
        from demeter._typing import USD
        from ..props.c17 import v2_world, _q

        self.ctx, self.p = ctx, p
        if p.get("neighbour_market"):
            from . import neighbours

            neighbours.gmx2()
        self._q = _q
        self.pool_imp = ctx.flt("impact_pool", 0, 1000)
        self.m, self.broker, self.weth, self.usdc, self.row, self.actions = v2_world(ctx, p["shape"], self.pool_imp)
        self.broker.quote_token = USD
        self.m.amount = ctx.flt("held_gm", 0, 10**6)
        side = p.get("side", "both") if p["op"] == "deposit" else "rich"
        # the wallet of a token that the operation debits is symbolic (rejection for lack of balance is reachable); two-sided deposits
        # run from a rich concrete wallet (the one-sided scenarios cover the debit branches)
        self._w0 = (ctx.dec("wallet_weth", 0, 10**5) if side == "long" else D(10**5), ctx.dec("wallet_usdc", 0, 10**8) if side == "short" else D(10**8))
        self.broker.set_balance(self.weth, self._w0[0])
        self.broker.set_balance(self.usdc, self._w0[1])
        self.price = {self.weth.name: _q(self.row["longPrice"]), self.usdc.name: _q(self.row["shortPrice"])}

    def prices(self):
        # the broker gets native Decimals (exactly the float values of the row), as Actuator's price frame would hold
        return {self.weth.name: D(self.row["longPrice"]), self.usdc.name: D(self.row["shortPrice"]), "USD": D(1)}

    def raw(self):
        return dict(gm=self._q(self.m.amount), wal={t.name: self._q(a.balance) for t, a in self.broker._assets.items()}, n_actions=len(self.actions))

    def wallet_value(self, raw):
        return sum((raw["wal"][n] * self.price[n] for n in raw["wal"]), 0)

    def _market(self, raw):
        return raw["gm"] * self._q(self.row["poolValue"]) / self._q(self.row["marketTokensSupply"])

    def oracle(self, raw):
        return self.wallet_value(raw) + self._market(raw)

    def report_tol(self, raw):
        return self._q(D("1e-9")) * (self._market(raw) + 1)  # float code in real arithmetic (DESIGN 6.1)

    def market_values(self, raw):
        return [("gmx2", self._market(raw), self.report_tol(raw))]

    def market_key(self, name):
        return self.m.market_info

    def nonneg(self, raw):
        return [("wallet", sand(*[raw["wal"][n] >= 0 for n in raw["wal"]])), ("GM holding", raw["gm"] >= 0)]

    def wallet_unchanged(self):
        return sand(self._q(self.broker.get_token_balance(self.weth)) == self._q(self._w0[0]), self._q(self.broker.get_token_balance(self.usdc)) == self._q(self._w0[1]))

    def apply(self, ctx, op, suffix=""):
        from .aave_ops import stem

        before = self.raw()
        touched = self.wallet_value(before)
        extra = self._q(D("1e-9")) * (self.oracle(before) + 1)
        payouts = []
        try:
            if op == "deposit":
                side = self.p.get("side", "both")
                la = ctx.flt("long_amount" + suffix, D("0.0001"), 10**4) if side in ("long", "both") else 0.0
                sa = ctx.flt("short_amount" + suffix, D("0.01"), 10**7) if side in ("short", "both") else 0.0
                self.m.deposit(la, sa)
            elif op == "withdraw":
                g = ctx.flt("gm" + suffix, 0, 2 * 10**6)
                self.m.withdraw(g)
                payouts.append(("GM", self._q(g), before["gm"]))
            else:
                raise ValueError(op)
        except Exception as e:
            return OpResult(False, stem(e), touched=touched, extra_dust=extra)
        return OpResult(True, kind="lossy", touched=touched, extra_dust=extra, payouts=payouts)


BUILDERS.update({"deribit": DeribitNV, "gmx1": Gmx1NV, "gmx2": Gmx2NV})


# ======================================================================================================== Squeeth (+ its oSQTH/WETH pool)


class SqueethNV:
    """account quote USD; Squeeth market quotes in USD, its Uniswap pool in WETH (differs from the account quote).
    The oSQTH price of the Squeeth row is the pool's price (both come from the same pool in the repo's data)."""

    IDX = D(10000)

    def __init__(self, ctx, p):
        from demeter._typing import USD
        from .squeeth import SqueethWorld, TICK

        self.ctx, self.p = ctx, p
        self.P = ctx.dec("eth_price", 500, 5000)
        self.nf = ctx.dec("norm_factor", D("0.1"), 1)
        ww, wo = ctx.dec("wallet_weth", 0, 1000), ctx.dec("wallet_osqth", 0, 10000)
        # pool price first (needs the world): build with a placeholder oSQTH price, then install the consistent row
        self.w = SqueethWorld(ctx, self.P, D(1), self.nf, wallet_weth=ww, wallet_osqth=wo)
        self.po = self.w.pool_price
        import pandas as pd
        from demeter import MarketStatus

        self.w.m.set_market_status(MarketStatus(timestamp=None, data=pd.Series(data=[self.nf, self.P, self.po], index=["norm_factor", "WETH", "OSQTH"], dtype=object)), price=None)
        self.broker = self.w.broker
        self.broker.quote_token = USD
        self.m, self.uni = self.w.m, self.w.uni
        self._w0 = (ww, wo)
        c = ctx.dec("collateral", 0, 1000)
        s = ctx.dec("short", 0, 10000) if p.get("short", True) else D(0)
        lp = None
        if p.get("lp"):
            lp = (ctx.int_("lp_liquidity", 1, 10**21), ctx.dec("lp_pending_weth", 0, 10), ctx.dec("lp_pending_osqth", 0, 100))
        self.key = self.w.add_vault(c, s, lp)
        self.free = None
        if p.get("free_lp"):
            self.free = self.w.add_free_lp(ctx.int_("free_lp_liquidity", 0, 10**21), ctx.dec("free_pending_weth", 0, 10), ctx.dec("free_pending_osqth", 0, 100))
        # representation invariant: a vault with debt that exists between operations is safe (an unsafe one is liquidated at bar end -- C14)
        coll = self._vault_coll(Nraw(self.raw()), self.key.id)
        margin = N(D("1e-12")) if ctx.sym else 0  # keeps the witness values (rounded to 60 digits) inside the assumption
        ctx.assume(sor(N(s) == 0, sand(coll * 2 >= N(s) * N(self.nf) * N(self.P) / N(self.IDX) * 3 * (1 + margin), coll >= N(D("0.5")) * (1 + margin))))

    def prices(self):
        return {"WETH": self.P, "OSQTH": self.po * self.P, "USD": D(1)}

    def raw(self):
        r = self.w.raw()
        # LP amounts per position by the closed forms (harness oracle), computed while the position still exists
        r["lp"] = {k: self.w.lp_amounts(k) for k in self.uni._positions}
        return r

    def wallet_value(self, raw):
        return raw["weth"] * N(self.P) + raw["osqth"] * N(self.po) * N(self.P)

    def _vault_coll(self, raw, vid):
        c, s, nft = raw["vault"][vid]
        if nft is None:
            return c
        a_weth, a_osqth = raw["lp"][nft]
        return c + a_weth + a_osqth * N(self.nf) * N(self.P) / N(self.IDX)

    def _squeeth(self, raw):
        tot = N(0)
        for vid, (c, s, nft) in raw["vault"].items():
            tot = tot + self._vault_coll(raw, vid) * N(self.P) - s * N(self.po) * N(self.P)
        return tot

    def _uni(self, raw):
        """in WETH (the pool's quote token): positions still held by the user, at the pool (mark) price"""
        tot = N(0)
        for k, (liq, p0, p1, transferred) in raw["pos"].items():
            if transferred:
                continue
            a_weth, a_osqth = raw["lp"][k]
            tot = tot + a_weth + a_osqth * N(self.po)
        return tot

    def oracle(self, raw):
        return self.wallet_value(raw) + self._squeeth(raw) + self._uni(raw) * N(self.P)

    def _unit_tol(self, raw):
        # integer rounding of the v3 amounts: 2 on-chain units (1e-18) per token and position
        return N(D("4e-18")) * (1 + N(self.po)) * max(len(raw["pos"]), 1)

    def report_tol(self, raw):
        return self._unit_tol(raw) * N(self.P)

    def market_values(self, raw):
        return [("squeeth", self._squeeth(raw), self._unit_tol(raw) * N(self.P)), ("uni", self._uni(raw), self._unit_tol(raw))]

    def market_key(self, name):
        return self.m.market_info if name == "squeeth" else self.uni.market_info

    def nonneg(self, raw):
        out = [("wallet WETH", raw["weth"] >= 0), ("wallet oSQTH", raw["osqth"] >= 0)]
        for vid, (c, s, nft) in raw["vault"].items():
            out.append((f"vault collateral", c >= 0))
            out.append((f"vault short amount", s >= 0))
        for k, (liq, p0, p1, tr) in raw["pos"].items():
            out.append(("LP liquidity and pending fees", sand(liq >= 0, p0 >= 0, p1 >= 0)))
        return out

    def wallet_unchanged(self):
        r = self.w.raw()
        return sand(r["weth"] == self._w0[0], r["osqth"] == self._w0[1])

    def apply(self, ctx, op, suffix=""):
        from .aave_ops import stem

        m, key = self.m, self.key
        before = Nraw(self.raw())
        touched = self.wallet_value(before)
        kind, fee_value, revalue, payouts = "conserve", 0, 0, []
        extra = self.report_tol(before)
        try:
            if op == "mint":
                m.open_deposit_mint(ctx.dec("deposit" + suffix, 0, 500), ctx.dec("mint" + suffix, 0, 5000), vault_key=key)
            elif op == "open":
                m.open_deposit_mint(ctx.dec("deposit" + suffix, 0, 500), ctx.dec("mint" + suffix, 0, 5000))
            elif op == "deposit":
                m.deposit(key, ctx.dec("deposit" + suffix, 0, 2000))
            elif op == "burn_withdraw":
                b, wd = ctx.dec("burn" + suffix, 0, 20000), ctx.dec("withdraw" + suffix, 0, 2000)
                m.burn_and_withdraw(key, b, wd)
                payouts.append(("vault collateral", N(self.broker.get_token_balance(self.w.WETH)) - before["weth"], before["vault"][key.id][0]))
            elif op in ("withdraw_lp", "deposit_lp"):
                pos = m.vault[key].uni_nft_id if op == "withdraw_lp" else self.free
                a_weth, a_osqth = before["lp"][pos]
                # the vault values the lent position's oSQTH at the index price, the pool at the mark price
                delta = a_osqth * (N(self.nf) * N(self.P) / N(self.IDX) - N(self.po)) * N(self.P)
                kind, revalue = "revalue", (delta if op == "deposit_lp" else -delta)
                if op == "withdraw_lp":
                    m.withdraw_uni_position(key, pos)
                else:
                    m.deposit_uni_position(key, pos)
            elif op == "deposit_unknown_vault":
                from demeter.squeeth import VaultKey

                m.open_deposit_mint(ctx.dec("deposit" + suffix, 0, 500), ctx.dec("mint" + suffix, 0, 5000), vault_key=VaultKey(99))
            elif op == "burn_unknown_vault":
                from demeter.squeeth import VaultKey

                m.burn_and_withdraw(VaultKey(99), ctx.dec("burn" + suffix, 0, 20000), ctx.dec("withdraw" + suffix, 0, 2000))
            elif op == "withdraw_lp_not_in_vault":
                from demeter.uniswap import PositionInfo

                m.withdraw_uni_position(key, PositionInfo(20400, 23100))
            elif op == "mint_with_second_lp":
                m.open_deposit_mint(ctx.dec("deposit" + suffix, 0, 500), ctx.dec("mint" + suffix, 0, 5000), vault_key=key, uni_position=self.free)
            elif op in ("buy_squeeth", "sell_squeeth"):
                a = ctx.dec("osqth_amount" + suffix, 0, 20000)
                fee, x, y = (m.buy_squeeth if op == "buy_squeeth" else m.sell_squeeth)(a)
                kind = "fee"
                # buy: fee in the quote token (WETH); sell: fee in the base token (oSQTH)
                fee_value = N(fee) * N(self.P) if op == "buy_squeeth" else N(fee) * N(self.po) * N(self.P)
            else:
                raise ValueError(op)
        except Exception as e:
            return OpResult(False, stem(e), touched=touched, extra_dust=extra)
        return OpResult(True, kind=kind, fee_value=fee_value, revalue=revalue, touched=touched, extra_dust=extra, payouts=payouts)


BUILDERS["squeeth"] = SqueethNV


# ======================================================================================================== Uniswap v3 LP


def _hp(fn):
    """evaluate fn under 80-digit Decimal precision (harness-side constants)"""
    import decimal

    with decimal.localcontext() as c:
        c.prec = 80
        return fn()


def v3_amounts_per_liquidity(lower_tick, upper_tick, price, t0q, d0, d1):
    """(token0, token1) held per unit of liquidity at pool price `price` (quote per base), in whole tokens -- closed forms of the
    v3 whitepaper, computed with 80-digit Decimals (not calling the repo's liquidity math)"""

    def calc():
        one = D("1.0001")
        sa = (one ** D(lower_tick)).sqrt()
        sb = (one ** D(upper_tick)).sqrt()
        ratio = (1 / price if t0q else price) * D(10) ** (d1 - d0)  # token1 per token0, in on-chain units
        sp = min(max(ratio.sqrt(), sa), sb)
        return ((sb - sp) / (sb * sp) / D(10) ** d0, (sp - sa) / D(10) ** d1)

    return tuple(N(x) for x in _hp(calc))


class UniNV:
    """one real UniLpMarket (either token order) + Broker; account quote = the pool's quote token, or USD with a symbolic
    price of the pool's quote token (market quote differs from account quote)"""

    def __init__(self, ctx, p):
        from demeter._typing import USD
        from demeter.uniswap import PositionInfo, Position
        from ..props.c09 import Side, _range

        self.ctx, self.p = ctx, p
        if p.get("neighbour_market"):
            from . import neighbours

            neighbours.uniswap()
        dq, db = p.get("dq", 6), p.get("db", 18)
        vq = ctx.int_("vol_quote_wei", 0, 10 ** (dq + 9))
        vb = ctx.int_("vol_base_wei", 0, 10 ** (db + 6))
        liq = ctx.int_("pool_liquidity", 10**10, 10**26)
        wb, wq = ctx.dec("wallet_base", 0, 10**6), ctx.dec("wallet_quote", 0, 10**9)
        self.s = Side(ctx, p.get("t0q", True), dq, db, p["tick"], p.get("fee", 0.05), (vq, vb), liq, wb, wq, names=("USDC", "WETH"))  # real token names: a stable-coin quote token next to a USD account
        self.m, self.broker = self.s.m, self.s.broker
        self.Q, self.B = self.s.Q, self.s.B
        self._w0 = (wb, wq)
        self.price = self.m.market_status.data.price  # concrete Decimal: quote per base
        if p.get("account_quote", "same") == "same":
            self.broker.quote_token = self.Q
            self.pq = D(1)
        else:
            self.broker.quote_token = USD
            self.pq = ctx.dec("quote_token_price", D("0.01"), 100)
        self.ranges = {}
        # direct-state positions (reachable by add_liquidity + fee bars): symbolic liquidity and pending fees
        for i, rg in enumerate(p.get("positions", ())):
            lo_a, hi_a = _range(dict(tick=p["tick"], range=rg))
            lo, hi = self.s.ticks(lo_a, hi_a)
            key = PositionInfo(lo, hi)
            L = ctx.int_(f"liq{i}", 0 if p.get("allow_dry") else 1, 10**24)
            p0, p1 = ctx.dec(f"pending0_{i}", 0, 10**6), ctx.dec(f"pending1_{i}", 0, 10**6)
            pl, ph = self.m.tick_to_price(lo), self.m.tick_to_price(hi)
            if self.s.t0q:
                pl, ph = ph, pl
            self.m._positions[key] = Position(p0, p1, L, pl, ph, self.price)
            self.ranges[key] = rg
        self.keys = list(self.m._positions)
        self._consts = {}

    # ---- closed-form v3 amounts, written from the whitepaper (not calling the repo's liquidity math)
    def _per_liquidity(self, key):
        """(token0, token1) held per unit of liquidity at the bar price, in whole tokens"""
        if key in self._consts:
            return self._consts[key]
        d0, d1 = self.m.pool_info.token0.decimal, self.m.pool_info.token1.decimal
        self._consts[key] = v3_amounts_per_liquidity(key.lower_tick, key.upper_tick, self.price, self.s.t0q, d0, d1)
        return self._consts[key]

    def prices(self):
        d = {self.Q.name: self.pq, self.B.name: self.price * self.pq}
        d["USD"] = D(1)
        return d

    def raw(self):
        pos = {k: (v.liquidity, v.pending_amount0, v.pending_amount1, v.transferred) for k, v in self.m._positions.items()}
        wb, wq = self.s.wallet()
        return dict(pos=pos, wb=wb, wq=wq, n_actions=len(self.s.actions))

    def wallet_value(self, raw):
        return (raw["wb"] * N(self.price) + raw["wq"]) * N(self.pq)

    def _value01(self, a0, a1):
        """value of (token0, token1) amounts in the pool's quote token"""
        base, quote = (a1, a0) if self.s.t0q else (a0, a1)
        return base * N(self.price) + quote

    def _market(self, raw):
        tot = N(0)
        for k, (L, p0, p1, tr) in raw["pos"].items():
            if tr:
                continue
            c0, c1 = self._per_liquidity(k)
            tot = tot + self._value01(L * c0 + p0, L * c1 + p1)
        return tot

    def oracle(self, raw):
        return self.wallet_value(raw) + self._market(raw) * N(self.pq)

    def _unit_tol(self, n_pos):
        d0, d1 = self.m.pool_info.token0.decimal, self.m.pool_info.token1.decimal
        # the implementation rounds amounts to whole on-chain units (and sqrt prices to Q64.96 integers): 3 units per token and position
        return self._value01(N(3) / N(10**d0), N(3) / N(10**d1)) * max(n_pos, 1)

    def report_tol(self, raw):
        return self._unit_tol(len(raw["pos"])) * N(self.pq) + N(D("1e-18")) * sabs(self._market(raw)) * N(self.pq)

    def market_values(self, raw):
        return [("uni", self._market(raw), self._unit_tol(len(raw["pos"])) + N(D("1e-18")) * sabs(self._market(raw)))]

    def market_key(self, name):
        return self.m.market_info

    def nonneg(self, raw):
        out = [("wallet base", raw["wb"] >= 0), ("wallet quote", raw["wq"] >= 0)]
        for k, (L, p0, p1, tr) in raw["pos"].items():
            out.append(("position liquidity", L >= 0))
            out.append(("position pending amounts", sand(p0 >= 0, p1 >= 0)))
        return out

    def wallet_unchanged(self):
        wb, wq = self.s.wallet()
        return sand(wb == self._w0[0], wq == self._w0[1])

    def apply(self, ctx, op, suffix=""):
        from .aave_ops import stem
        from ..props.c09 import _range, _wei_amount

        m, p, s = self.m, self.p, self.s
        before = Nraw(self.raw())
        touched = self.wallet_value(before)
        extra = self._unit_tol(len(before["pos"]) + 1) * N(self.pq) + N(D("1e-18")) * (sabs(self._market(before)) + touched) * N(self.pq)
        kind, fee_value, payouts = "conserve", 0, []
        key = self.keys[0] if self.keys else next(iter(m._positions), None)
        if key is None and op in ("remove", "collect"):
            from ..harness import Reject

            raise Reject("no position to operate on (the preceding add was rejected)")
        try:
            if op == "add":
                lo_a, hi_a = _range(dict(tick=p["tick"], range=p.get("add_range", "inside")))
                lo, hi = s.ticks(lo_a, hi_a)
                base_amt = _wei_amount(ctx, "add_base_wei" + suffix, self.B.decimal, -3, 7)
                quote_amt = _wei_amount(ctx, "add_quote_wei" + suffix, self.Q.decimal, -3, 10)
                m.add_liquidity_by_tick(lo, hi, base_amt, quote_amt)
            elif op == "remove":
                liq = ctx.int_("remove_liquidity" + suffix, 0, 10**25) if p.get("partial") else None
                c0, c1 = self._per_liquidity(key)
                L, p0, p1, _ = before["pos"][key]
                got = m.remove_liquidity(key, liq, p.get("collect", True))
                if p.get("collect", True):
                    wb, wq = s.wallet()
                    d0, d1 = s.t01(N(wb) - before["wb"], N(wq) - before["wq"])
                    payouts.append(("token0 of the position", d0, L * c0 + p0))
                    payouts.append(("token1 of the position", d1, L * c1 + p1))
            elif op == "collect":
                L, p0, p1, _ = before["pos"][key]
                cap0 = ctx.dec("cap0" + suffix, 0, 2 * 10**6) if p.get("caps", True) else None
                cap1 = ctx.dec("cap1" + suffix, 0, 2 * 10**6) if p.get("caps", True) else None
                m.collect_fee(key, cap0, cap1)
                wb, wq = s.wallet()
                d0, d1 = s.t01(N(wb) - before["wb"], N(wq) - before["wq"])
                payouts.append(("pending token0", d0, p0))
                payouts.append(("pending token1", d1, p1))
            elif op in ("buy", "sell"):
                a = ctx.dec("amount" + suffix, 0, 10**7)
                fee, x, y = getattr(m, op)(a)
                kind = "fee"
                fee_value = (N(fee) if op == "buy" else N(fee) * N(self.price)) * N(self.pq)  # buy: fee in quote token; sell: in base token
            elif op in ("swap_b2q", "swap_q2b"):
                a = ctx.dec("amount" + suffix, 0, 10**9)
                fee, got = m.swap(a, s.B, s.Q) if op == "swap_b2q" else m.swap(a, s.Q, s.B)
                kind = "fee"
                fee_value = (N(fee) * N(self.price) if op == "swap_b2q" else N(fee)) * N(self.pq)
            elif op == "even_rebalance":
                m.even_rebalance()
                kind = "lossy"
            elif op == "add_by_value":
                lo_a, hi_a = _range(dict(tick=p["tick"], range=p.get("add_range", "inside")))
                lo, hi = s.ticks(lo_a, hi_a)
                m.add_liquidity_by_value(lo, hi, ctx.dec("value" + suffix, D("1"), 10**9))
                kind = "lossy"
            elif op == "remove_all":
                m.remove_all_liquidity()
            elif op == "add_misaligned_ticks":
                lo_a, hi_a = _range(dict(tick=p["tick"], range="inside"))
                lo, hi = s.ticks(lo_a, hi_a)
                m.add_liquidity_by_tick(lo + 3, hi, _wei_amount(ctx, "add_base_wei" + suffix, self.B.decimal, -3, 7), _wei_amount(ctx, "add_quote_wei" + suffix, self.Q.decimal, -3, 10))
            elif op == "add_inverted_range":
                lo_a, hi_a = _range(dict(tick=p["tick"], range="inside"))
                lo, hi = s.ticks(lo_a, hi_a)
                m.add_liquidity_by_tick(hi, lo, _wei_amount(ctx, "add_base_wei" + suffix, self.B.decimal, -3, 7), _wei_amount(ctx, "add_quote_wei" + suffix, self.Q.decimal, -3, 10))
            elif op == "swap_same_token":
                m.swap(ctx.dec("amount" + suffix, 0, 10**9), s.B, s.B)
            elif op == "swap_foreign_token":
                from demeter import TokenInfo

                m.swap(ctx.dec("amount" + suffix, 0, 10**9), s.B, TokenInfo("DAI", 18))
            else:
                raise ValueError(op)
        except Exception as e:
            return OpResult(False, stem(e), touched=touched, extra_dust=extra)
        return OpResult(True, kind=kind, fee_value=fee_value, touched=touched, extra_dust=extra, payouts=payouts)


BUILDERS["uni"] = UniNV
