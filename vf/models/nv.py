"""Net-value worlds shared by C01 (reported net value == independent valuation) and C03 (frozen-market operations never
create value / negative holdings / over-redemption).

Every world wraps real demeter objects (a real Broker with one or more real markets) in an arbitrary valid pre-state whose
numbers are symbolic, and offers
  * prices()            the price vector handed to Broker.get_account_status (account quote token priced 1)
  * raw()               a snapshot of the raw state (wallet balances, position containers) -- no demeter valuation code
  * oracle(raw)         the harness's own valuation of that snapshot in the account quote token, written from the
                        definitions in the property (v3 closed forms, scaled balance x index x price, ...)
  * report_tol(raw)     absolute tolerance that is the implementation's own documented rounding of *reported* figures
  * nonneg(raw)         [(label, condition)] every holding that must never be negative
  * apply(ctx, op)      runs ONE real operation with symbolic arguments; returns an OpResult
The step function `nv_step` below is the scenario body for both properties.
"""
from __future__ import annotations

from dataclasses import dataclass, field
from decimal import Decimal

from ..symx import ite, sand, sor, snot, smin, smax, sabs, is_sym

D = Decimal
SNAP = D("0.00001")  # Asset.sub: differences below 1e-5 relative are snapped to zero -- the property's own dust allowance
RHO = D("1e-20")  # slack for exact-real vs 35-digit Decimal arithmetic (DESIGN 6.1)


def N(x):
    """oracle-side number: symbolic stays symbolic (decimal kind), concrete Decimal / float / int becomes an exact Fraction so that
    the oracle arithmetic is exact in replays and witness runs"""
    import fractions
    from .. import symx

    if isinstance(x, symx.Sym):
        return symx.Sym(symx._real(x.e), symx.DEC)
    if isinstance(x, symx.SymBool) or isinstance(x, bool):
        return x
    return fractions.Fraction(x)


def Nraw(x):
    """apply N to every number inside a raw-state snapshot (dict / list / tuple of numbers, flags, keys)"""
    from .. import symx

    if isinstance(x, dict):
        return {k: Nraw(v) for k, v in x.items()}
    if isinstance(x, (list, tuple)):
        return type(x)(Nraw(v) for v in x)
    if isinstance(x, (symx.Sym, Decimal, float)) or (isinstance(x, int) and not isinstance(x, bool)):
        return N(x)
    return x


@dataclass
class OpResult:
    accepted: bool
    label: str = "accepted"
    kind: str = "lossy"  # "conserve": |dNV| <= dust ; "fee": dNV == -fee_value ; "lossy": dNV <= dust ; "revalue": dNV == revalue
    fee_value: object = 0  # for kind == "fee": the reported fee valued in the account quote token
    revalue: object = 0  # for kind == "revalue": the stated re-valuation (index vs mark price of a lent LP position)
    touched: object = 0  # value (account quote) of the wallet balances the operation touches (dust allowance base)
    extra_dust: object = 0  # additional absolute allowance that is the implementation's documented rounding (stated per market)
    payouts: list = field(default_factory=list)  # (label, amount_paid_out, amount_held_before)
    note: str = ""


def reported(w):
    st = w.broker.get_account_status(w.prices())
    return st


def nv_step(ctx):
    """one (or two) operations at a frozen market from a symbolic pre-state; obligations selected by ctx.p['prop']"""
    p = ctx.p
    prop = p["prop"]
    w = BUILDERS[p["market"]](ctx, p)
    raw0 = Nraw(w.raw())
    o0 = N(w.oracle(raw0))
    r0 = N(reported(w).net_value)
    tol0 = N(w.report_tol(raw0))
    if prop == "C01":
        _c01_checks(ctx, w, raw0, "pre-state")
    ops = [p["op"]] + ([p["op2"]] if p.get("op2") else [])
    if p["op"] is None:
        ctx.outcome("valuation")
        ctx.check("CANARY markets hold nothing", r0 == N(w.wallet_value(raw0)))
        return
    for k, op in enumerate(ops):
        tag = f"{p['market']}.{op}" + ("" if k == 0 else " (second operation)")
        res = w.apply(ctx, op, suffix="" if k == 0 else "_2")
        ctx.outcome(("accepted" if res.accepted else "rejected:" + res.label) + ("" if k == 0 else "#2"))
        raw1 = Nraw(w.raw())
        o1 = N(w.oracle(raw1))
        r1 = N(reported(w).net_value)
        tol1 = N(w.report_tol(raw1))
        res.touched, res.extra_dust, res.fee_value, res.revalue = N(res.touched), N(res.extra_dust), N(res.fee_value), N(res.revalue)
        res.payouts = [(a, N(b), N(c)) for a, b, c in res.payouts]
        if prop == "C01":
            _c01_checks(ctx, w, raw1, f"after {tag} [{'accepted' if res.accepted else 'rejected'}]")
        else:
            dust = N(SNAP) * res.touched * (1 + N(D("1e-9"))) + res.extra_dust + N(RHO) * (sabs(o0) + 1)
            acc = "accepted" if res.accepted else "rejected"
            items = []
            # the property's observation point is the REPORTED net value; the oracle valuation is checked as well so that a
            # stale report cannot hide (or fake) a change of the real holdings
            items.append((f"{tag} [{acc}]: net value (independent valuation) does not rise by more than wallet dust", o1 <= o0 + dust))
            items.append((f"{tag} [{acc}]: reported net value does not rise by more than wallet dust", r1 <= r0 + dust + tol0 + tol1))
            if res.accepted:
                if res.kind == "conserve":
                    items.append((f"{tag}: conserves net value up to wallet dust", sabs(o1 - o0) <= dust))
                    items.append((f"{tag}: conserves the reported net value up to wallet dust", sabs(r1 - r0) <= dust + tol0 + tol1))
                elif res.kind == "fee":
                    items.append((f"{tag}: loses exactly the reported fee", sabs((o0 - o1) - res.fee_value) <= dust))
                    items.append((f"{tag}: reported net value loses exactly the reported fee", sabs((r0 - r1) - res.fee_value) <= dust + tol0 + tol1))
                elif res.kind == "revalue":
                    items.append((f"{tag}: net value moves only by the stated re-valuation of the lent position", sabs((o1 - o0) - res.revalue) <= dust))
            else:
                items.append((f"{tag} [rejected]: a rejected operation does not change net value", sabs(o1 - o0) <= dust))
            for lab, cond in w.nonneg(raw1):
                items.append((f"{tag} [{acc}]: {lab} stays non-negative", cond))
            for lab, paid, held in res.payouts:
                items.append((f"{tag}: pays out no more {lab} than is held", paid <= held * (1 + N(SNAP)) + res.extra_dust))
            ctx.check_all(items)
        raw0, o0, r0, tol0 = raw1, o1, r1, tol1
    if prop == "C03":
        ctx.check("CANARY operations never change the wallet", w.wallet_unchanged())
    else:
        ctx.check("CANARY markets hold nothing", r0 == N(w.wallet_value(raw0)))


def _c01_checks(ctx, w, raw, when):
    st = reported(w)
    o = N(w.oracle(raw))
    tol = N(w.report_tol(raw))
    wal = N(w.wallet_value(raw))
    rho = N(RHO)
    items = [
        (f"{when}: reported net value == wallet at bar prices + positions valued independently", ctx.close(N(st.net_value), o, rel=rho, abs_=tol)),
        (f"{when}: reported asset value == wallet balances x prices", ctx.close(N(st.asset_value), wal, rel=rho, abs_=rho)),
    ]
    for name, val, mtol in w.market_values(raw):
        items.append((f"{when}: {name} market net value == independent valuation of its positions", ctx.close(N(st.market_status[w.market_key(name)].net_value), N(val), rel=rho, abs_=N(mtol))))
    ctx.check_all(items)


# ======================================================================================================== Aave


class AaveNV:
    def __init__(self, ctx, p):
        from demeter._typing import USD
        from .aave import sym_portfolio

        self.ctx = ctx
        self.w = sym_portfolio(ctx, p["shape"], idx_hi=p.get("idx_hi", 4))
        self.broker = self.w.broker
        self.broker.quote_token = USD
        self._wal0 = dict(self.w.raw()["wal"])
        self.p = p

    def prices(self):
        d = dict(self.w.price)
        d["USD"] = D(1)
        return d

    def raw(self):
        return self.w.raw()

    def wallet_value(self, raw):
        return sum((raw["wal"][n] * N(self.w.price[n]) for n in raw["wal"]), N(0))

    def _market(self, raw):
        """Aave v3 definition: sum of scaled supply x liquidity index x price minus scaled debt x borrow index x price"""
        w = self.w
        sup = sum((raw["sup"][n][0] * N(w.row["li"][n]) * N(w.price[n]) for n in raw["sup"]), N(0))
        bor = sum((raw["bor"][n] * N(w.row["bi"][n]) * N(w.price[n]) for n in raw["bor"]), N(0))
        return sup - bor

    def oracle(self, raw):
        return self.wallet_value(raw) + self._market(raw)

    def report_tol(self, raw):
        return D("0.0001") * (1 + D("1e-9"))  # get_market_balance quantises supplies and borrows to 1e-4 (half a step each)

    def market_values(self, raw):
        return [("aave", self._market(raw), self.report_tol(raw))]

    def market_key(self, name):
        return self.w.market.market_info

    def nonneg(self, raw):
        out = [(f"wallet[{n}]", raw["wal"][n] >= 0) for n in raw["wal"]]
        out += [(f"supply[{n}]", raw["sup"][n][0] >= 0) for n in raw["sup"]]
        out += [(f"debt[{n}]", raw["bor"][n] >= 0) for n in raw["bor"]]
        return out

    def wallet_unchanged(self):
        now = self.w.raw()["wal"]
        return sand(*[now[n] == self._wal0[n] for n in self._wal0])

    def apply(self, ctx, op, suffix=""):
        from .aave_ops import apply_op

        w = self.w
        tok, tok2 = self.p["tok"], self.p.get("tok2")
        before = w.raw()
        if suffix:
            # second operation: fresh argument names
            ok, label, args = _aave_second(ctx, w, op, tok, tok2, suffix)
        else:
            ok, label, args = apply_op(ctx, w, op, tok, tok2)
        after = w.raw()
        touched = before["wal"][tok] * w.price[tok]
        # helper.sub_base_amount clamps scaled residues below 1e-18 to zero (a forgiven / lost residue of at most 1e-18 scaled units),
        # and repay tolerates round(.., 18): the implementation's documented rounding (DESIGN 6.2)
        inv = [tok] + ([tok2] if tok2 else [])
        extra = sum((D("2e-18") * (w.row["li"][n] + w.row["bi"][n]) * w.price[n] for n in inv), D(0))
        payouts = []
        if ok and op == "withdraw":
            held = before["sup"][tok][0] * w.row["li"][tok] if tok in before["sup"] else D(0)
            payouts.append((f"supplied {tok}", after["wal"][tok] - before["wal"][tok], held))
        return OpResult(ok, label, kind="conserve", touched=touched, extra_dust=extra, payouts=payouts)


def _aave_second(ctx, w, op, tok, tok2, suffix):
    from .aave_ops import stem

    m, t = w.market, w.tok(tok)
    try:
        if op == "supply":
            m.supply(t, ctx.dec("amt" + suffix, 0, 10**10), True)
        elif op == "withdraw":
            m.withdraw(t, ctx.dec("amt" + suffix, 0, 10**10))
        elif op == "borrow":
            m.borrow(t, ctx.dec("amt" + suffix, 0, 10**10))
        elif op == "repay":
            m.repay(t, ctx.dec("amt" + suffix, 0, 10**10))
        else:
            raise ValueError(op)
    except Exception as e:
        return False, stem(e), {}
    return True, "accepted", {}


BUILDERS = {"aave": AaveNV}


# ======================================================================================================== Deribit


class DeribitNV:
    """account quote USD, market quote ETH (differs): cash + options at mark, converted by the ETH price"""

    NAME = "ETH-22SEP23-1650-C"
    NAME2 = "ETH-22SEP23-1700-C"

    def __init__(self, ctx, p):
        from demeter._typing import USD
        from .deribit import DeribitWorld, sym_book, _dec

        self.ctx, self.p = ctx, p
        self.mark, self.mark2 = 0.0287, 0.0161
        ins = sym_book(ctx, self.NAME, p.get("levels", 2), p.get("levels", 2), mark=self.mark)
        ins2 = sym_book(ctx, self.NAME2, 1, 1, mark=self.mark2, prefix="i2_")
        cash = ctx.dec("cash", 0, 1000)
        wallet = ctx.dec("wallet", 0, 1000)
        self.P = ctx.dec("eth_price", 100, 10000)
        self.w = DeribitWorld(ctx, [ins, ins2], cash=cash, wallet=wallet)
        self.broker = self.w.broker
        self.broker.quote_token = USD
        self.m = self.w.market
        if p.get("hold", True):
            self.w.hold(self.NAME, _dec(ctx.int_("held", 1, 3000)))
        if p.get("hold2"):
            self.w.hold(self.NAME2, _dec(ctx.int_("held2", 1, 3000)))
        self._wal0 = wallet
        self.ins = ins

    def prices(self):
        return {"ETH": self.P, "USD": D(1)}

    def raw(self):
        return self.w.raw()

    def wallet_value(self, raw):
        return sum((raw["wal"][n] * N(self.P) for n in raw["wal"]), N(0))

    def _market_eth(self, raw):
        marks = {self.NAME: N(D(str(self.mark))), self.NAME2: N(D(str(self.mark2)))}
        return raw["cash"] + sum((raw["pos"][k][0] * marks[k] for k in raw["pos"]), N(0))

    def oracle(self, raw):
        return self.wallet_value(raw) + self._market_eth(raw) * N(self.P)

    def report_tol(self, raw):
        return D(0)

    def market_values(self, raw):
        return [("deribit", self._market_eth(raw), D(0))]

    def market_key(self, name):
        return self.m.market_info

    def nonneg(self, raw):
        out = [("wallet", raw["wal"][n] >= 0) for n in raw["wal"]]
        out.append(("option-account cash", raw["cash"] >= 0))
        out += [(f"option amount", raw["pos"][k][0] >= 0) for k in raw["pos"]]
        return out

    def wallet_unchanged(self):
        return sand(*[v == self._wal0 for v in self.w.raw()["wal"].values()])

    def apply(self, ctx, op, suffix=""):
        from .deribit import _dec
        from .aave_ops import stem

        m, p = self.m, self.p
        before = self.w.raw()
        wal = list(before["wal"].values())[0]
        payouts = []
        kind = "lossy"
        try:
            if op == "deposit":
                a = ctx.dec("amt" + suffix, 0, 2000)
                m.deposit(a)
                kind = "conserve"
            elif op == "withdraw":
                a = ctx.dec("amt" + suffix, 0, 2000)
                m.withdraw(a)
                kind = "conserve"
                payouts.append(("option-account cash", a, before["cash"]))
            else:
                n = _dec(ctx.int_("n" + suffix, 0, 5000))
                kw = {}
                if p.get("mode") == "cap":
                    kw["max_mark_price_multiple"] = ctx.dec("cap" + suffix, D("1.0"), D("1.1"))
                elif p.get("mode") == "limit":
                    kw["price_in_token"] = D(str((self.ins["asks"] if op == "buy" else self.ins["bids"])[0][0]))
                (m.buy if op == "buy" else m.sell)(self.NAME, n, **kw)
                if op == "sell":
                    payouts.append(("option contracts", n, before["pos"][self.NAME][0] if self.NAME in before["pos"] else D(0)))
        except Exception as e:
            return OpResult(False, stem(e), touched=wal * self.P)
        return OpResult(True, kind=kind, touched=wal * self.P, payouts=payouts)


# ======================================================================================================== GMX v1


class Gmx1NV:
    def __init__(self, ctx, p):
        from demeter._typing import USD
        from ..props.c17 import v1_world, P30

        self.ctx, self.p = ctx, p
        self.m, self.broker, self.toks, self.row, self.actions = v1_world(ctx, p["shape"], p["token"])
        self.broker.quote_token = USD
        self.tok = self.toks[p["token"]]
        self.m.glp_amount = ctx.dec("held_glp", 0, 10**7)
        self.m.reward = ctx.dec("reward", 0, 100)
        self._wal0 = ctx.dec("wallet", 0, 10**6)
        self.broker.set_balance(self.tok, self._wal0)
        # account prices are the ones the row implies (Actuator takes them from the same data)
        self.price = {self.toks[t].name: D(self.row[f"{t}_price"]) / D(P30) for t in self.toks}

    def prices(self):
        d = dict(self.price)
        d["USD"] = D(1)
        return d

    def raw(self):
        return dict(glp=self.m.glp_amount, reward=self.m.reward, wal={t.name: a.balance for t, a in self.broker._assets.items()}, n_actions=len(self.actions))

    def wallet_value(self, raw):
        return sum((raw["wal"][n] * N(self.price[n]) for n in raw["wal"]), N(0))

    def _market(self, raw):
        return raw["glp"] * N(D(self.row["glp_price"])) + raw["reward"] * N(self.price[self.toks["wavax"].name])

    def oracle(self, raw):
        return self.wallet_value(raw) + self._market(raw)

    def report_tol(self, raw):
        return D(0)

    def market_values(self, raw):
        return [("gmx", self._market(raw), D(0))]

    def market_key(self, name):
        return self.m.market_info

    def nonneg(self, raw):
        return [("wallet", sand(*[raw["wal"][n] >= 0 for n in raw["wal"]])), ("GLP holding", raw["glp"] >= 0), ("reward", raw["reward"] >= 0)]

    def wallet_unchanged(self):
        return self.broker.get_token_balance(self.tok) == self._wal0

    def apply(self, ctx, op, suffix=""):
        from .aave_ops import stem

        before = self.raw()
        touched = before["wal"][self.tok.name] * self.price[self.tok.name]
        # GLP is minted / redeemed in whole 1e-18 units and USDG in whole units: a few units of round-down, always against the user;
        # the row's glp_price (a float-derived figure) may differ from aum / supply in the last digits: stated self-consistency 1e-9
        extra = D("1e-9") * (before["glp"] * D(self.row["glp_price"]) + touched + 1)
        payouts = []
        try:
            if op == "buy_glp":
                a = ctx.dec("amount" + suffix, 0, 10**7)
                self.m.buy_glp(self.tok, a)
            elif op == "sell_glp":
                g = ctx.dec("glp" + suffix, 0, 2 * 10**7)
                self.m.sell_glp(self.tok, g)
                payouts.append(("GLP", ite(g == 0, before["glp"], g), before["glp"]))
            else:
                raise ValueError(op)
        except Exception as e:
            return OpResult(False, stem(e), touched=touched, extra_dust=extra)
        return OpResult(True, kind="lossy", touched=touched, extra_dust=extra, payouts=payouts)


# ======================================================================================================== GMX v2


class Gmx2NV:
    def __init__(self, ctx, p):
        from demeter._typing import USD
        from ..props.c17 import v2_world, _q

        self.ctx, self.p = ctx, p
        self._q = _q
        self.pool_imp = ctx.flt("impact_pool", 0, 1000)
        self.m, self.broker, self.weth, self.usdc, self.row, self.actions = v2_world(ctx, p["shape"], self.pool_imp)
        self.broker.quote_token = USD
        self.m.amount = ctx.flt("held_gm", 0, 10**6)
        side = p.get("side", "both") if p["op"] == "deposit" else "rich"
        # the wallet of a token that the operation debits is symbolic (rejection for lack of balance is reachable); two-sided deposits
        # run from a rich concrete wallet (the one-sided scenarios cover the debit branches)
        self._w0 = (ctx.dec("wallet_weth", 0, 10**5) if side == "long" else D(10**5), ctx.dec("wallet_usdc", 0, 10**8) if side == "short" else D(10**8))
        self.broker.set_balance(self.weth, self._w0[0])
        self.broker.set_balance(self.usdc, self._w0[1])
        self.price = {self.weth.name: _q(self.row["longPrice"]), self.usdc.name: _q(self.row["shortPrice"])}

    def prices(self):
        # the broker gets native Decimals (exactly the float values of the row), as Actuator's price frame would hold
        return {self.weth.name: D(self.row["longPrice"]), self.usdc.name: D(self.row["shortPrice"]), "USD": D(1)}

    def raw(self):
        return dict(gm=self._q(self.m.amount), wal={t.name: self._q(a.balance) for t, a in self.broker._assets.items()}, n_actions=len(self.actions))

    def wallet_value(self, raw):
        return sum((raw["wal"][n] * self.price[n] for n in raw["wal"]), 0)

    def _market(self, raw):
        return raw["gm"] * self._q(self.row["poolValue"]) / self._q(self.row["marketTokensSupply"])

    def oracle(self, raw):
        return self.wallet_value(raw) + self._market(raw)

    def report_tol(self, raw):
        return self._q(D("1e-9")) * (self._market(raw) + 1)  # float code in real arithmetic (DESIGN 6.1)

    def market_values(self, raw):
        return [("gmx2", self._market(raw), self.report_tol(raw))]

    def market_key(self, name):
        return self.m.market_info

    def nonneg(self, raw):
        return [("wallet", sand(*[raw["wal"][n] >= 0 for n in raw["wal"]])), ("GM holding", raw["gm"] >= 0)]

    def wallet_unchanged(self):
        return sand(self._q(self.broker.get_token_balance(self.weth)) == self._q(self._w0[0]), self._q(self.broker.get_token_balance(self.usdc)) == self._q(self._w0[1]))

    def apply(self, ctx, op, suffix=""):
        from .aave_ops import stem

        before = self.raw()
        touched = self.wallet_value(before)
        extra = self._q(D("1e-9")) * (self.oracle(before) + 1)
        payouts = []
        try:
            if op == "deposit":
                side = self.p.get("side", "both")
                la = ctx.flt("long_amount" + suffix, D("0.0001"), 10**4) if side in ("long", "both") else 0.0
                sa = ctx.flt("short_amount" + suffix, D("0.01"), 10**7) if side in ("short", "both") else 0.0
                self.m.deposit(la, sa)
            elif op == "withdraw":
                g = ctx.flt("gm" + suffix, 0, 2 * 10**6)
                self.m.withdraw(g)
                payouts.append(("GM", self._q(g), before["gm"]))
            else:
                raise ValueError(op)
        except Exception as e:
            return OpResult(False, stem(e), touched=touched, extra_dust=extra)
        return OpResult(True, kind="lossy", touched=touched, extra_dust=extra, payouts=payouts)


BUILDERS.update({"deribit": DeribitNV, "gmx1": Gmx1NV, "gmx2": Gmx2NV})
