"""ANOTHER market object of the same type, configured differently and used (concretely) in the same process before the market under
test exists.  Nothing two market objects share at class or module level (tables, caches, default arguments, lists) may carry one
market's configuration or state over to the other.  Called by the world builders when the scenario has neighbour_market=True."""
from __future__ import annotations

from decimal import Decimal

import pandas as pd

D = Decimal


def uniswap():
    from demeter import Broker, TokenInfo, MarketInfo
    from demeter.uniswap import UniLpMarket, UniV3Pool, UniswapMarketStatus
    from demeter.uniswap.helper import tick_to_base_unit_price

    a, b = TokenInfo("WBTC", 8), TokenInfo("DAI", 18)
    pool = UniV3Pool(a, b, 0.3, b)  # other decimals, other fee tier / tick spacing, token1 is the quote token
    m = UniLpMarket(MarketInfo("uni_other"), pool)
    br = Broker()
    br.add_market(m)
    tick = -67140
    price = tick_to_base_unit_price(tick, 8, 18, False)
    for i, t in enumerate((tick, tick + 120)):
        m.set_market_status(UniswapMarketStatus(timestamp=pd.Timestamp("2023-08-01") + pd.Timedelta(minutes=i), data=pd.Series([10**8, 10**21, 10**20, t, price], index=["inAmount0", "inAmount1", "currentLiquidity", "closeTick", "price"], dtype=object)), price=None)
        if i == 0:
            br.set_balance(a, D(5))
            br.set_balance(b, D(200000))
            m.add_liquidity_by_tick(tick - 600, tick + 600, D(1), D(30000))
            m.buy(D("0.1"))
        m.update()
        m.get_market_balance()
    for k in list(m.positions):
        m.collect_fee(k)
        m.remove_liquidity(k)


def deribit():
    from demeter import Broker, MarketInfo, MarketTypeEnum
    from demeter.deribit import DeribitOptionMarket, DeribitMarketStatus

    name = "BTC-22SEP23-26000-P"
    row = dict(state="open", type="PUT", strike_price=26000, expiry_time=pd.Timestamp("2023-09-22 08:00:00"), vega=0.0, theta=0.0, rho=0.0, gamma=0.001, delta=-0.4,
               underlying_price=25900.0, settlement_price=None, mark_price=0.051, mark_iv=40.0, last_price=None, interest_rate=0, bid_iv=0.0, best_bid_price=0.0, best_bid_amount=0.0,
               ask_iv=0.0, best_ask_price=0.0, best_ask_amount=0.0, asks=[[0.052, 7.0], [0.053, 9.0]], bids=[[0.05, 6.0], [0.049, 8.0]])
    df = pd.DataFrame.from_dict({name: row}, orient="index").astype(object)
    df.index.name = "instrument_name"
    m = DeribitOptionMarket(MarketInfo("deribit_other", MarketTypeEnum.deribit_option), DeribitOptionMarket.BTC)
    br = Broker()
    br.add_market(m)
    br.set_balance(DeribitOptionMarket.BTC, D(10))
    m.set_market_status(DeribitMarketStatus(timestamp=pd.Timestamp("2023-09-01 05:00:00"), data=df), price=pd.Series([25900.0], index=["BTC"], dtype=object))
    m.deposit(D(5))
    m.buy(name, D(8))
    m.sell(name, D(3))
    m.get_market_balance()
    m.update()


def gmx1():
    from demeter import Broker, MarketInfo, MarketTypeEnum, TokenInfo, MarketStatus
    from demeter.gmx import GmxMarket

    toks = {"wbtc": TokenInfo("wbtc", 8), "dai": TokenInfo("dai", 18)}
    row = {"glp": D("9000000000000000000000000"), "aum": D("10000000000000000000000000000000000000"), "usdg": 9500000 * 10**18, "glp_price": D("1.11"), "interval": 5e14,
           "wbtc_price": D(26000) * 10**30, "dai_price": 10**30, "wavax_price": D(31) * 10**30, "wbtc_usdg": 3000000 * 10**18, "dai_usdg": 6500000 * 10**18, "wbtc_weight": 15000, "dai_weight": 35000}
    m = GmxMarket(MarketInfo("gmx_other", MarketTypeEnum.gmx_v1), tokens=list(toks.values()))
    br = Broker()
    br.add_market(m)
    br.set_balance(toks["dai"], D(10000))
    m.set_market_status(MarketStatus(pd.Timestamp("2024-10-14 23:59:00"), pd.Series(row, dtype=object)), None)
    for t in toks.values():
        m.get_fee_basis_points(t, D(10) ** 21, True)
        m.get_fee_basis_points(t, D(10) ** 21, False)
    m.buy_glp(toks["dai"], D(1000))
    m.sell_glp(toks["dai"], m.glp_amount / 2)
    m.get_market_balance()
    m.update()


def gmx2():
    from demeter import Broker, MarketInfo, MarketTypeEnum, TokenInfo
    from demeter.gmx import GmxV2Market
    from demeter.gmx._typing2 import GmxV2Pool, GmxV2MarketStatus

    ts = pd.Timestamp("2024-10-14 23:59:00")
    wbtc, usdt = TokenInfo("wbtc", 8), TokenInfo("usdt", 6)
    row = dict(longAmount=800.0, shortAmount=30000000.0, virtualSwapInventoryLong=None, virtualSwapInventoryShort=None, poolValue=82000000.0, marketTokensSupply=70000000.0, longPrice=65000.0, shortPrice=1.0,
               indexPrice=65000.0, impactPoolAmount=0.4)
    df = pd.DataFrame([row], index=[ts]).astype(object)
    m = GmxV2Market(MarketInfo("gmx2_other", MarketTypeEnum.gmx_v2), GmxV2Pool(wbtc, usdt, wbtc), data=df)
    br = Broker()
    br.add_market(m)
    br.set_balance(wbtc, D(5))
    br.set_balance(usdt, D(500000))
    m.set_market_status(GmxV2MarketStatus(ts, None), None)
    m.deposit(1.0, 50000.0)
    m.withdraw(m.amount / 2)
    m.get_market_balance()
