"""Deribit part of C04 (rejected operations leave wallet, cash, positions, visible order book and action log intact)."""
from decimal import Decimal

from ..harness import Scenario
from .deribit import DeribitWorld, SHADOWS, sym_book, states_equal, _dec
from .aave_ops import stem

D = Decimal


def deribit_reject(ctx):
    p = ctx.p
    name = "ETH-22SEP23-1650-C"
    ins = sym_book(ctx, name, 2, 2)
    if p.get("state_closed"):
        ins["state"] = "closed"
    ins2 = sym_book(ctx, "ETH-22SEP23-1700-C", 1, 1, mark=0.0161, prefix="i2_")
    cash = ctx.dec("cash", 0, 100)
    wallet = ctx.dec("wallet", 0, 100)
    w = DeribitWorld(ctx, [ins, ins2], cash=cash, wallet=wallet)
    m = w.market
    if p["hold"]:
        w.hold(name, _dec(ctx.int_("held", 1, 3000)))
    if p.get("closed_market"):
        m.is_open = False
    op = p["op"]
    before = w.raw()
    try:
        if op == "deposit":
            m.deposit(ctx.dec("amt", 0, 200))
        elif op == "withdraw":
            m.withdraw(ctx.dec("amt", 0, 200))
        else:
            target = "ETH-01JAN30-9999-C" if p.get("unknown_instrument") else name
            n = ctx.dec("n_frac", 0, 5000) if p.get("fractional") else _dec(ctx.int_("n", 0, 5000))
            kw = {}
            if p.get("price") == "off_book":
                kw["price_in_token"] = D("0.5")
            elif p.get("price") == "level0":
                kw["price_in_token"] = D(str((ins["asks"] if op == "buy" else ins["bids"])[0][0]))
            elif p.get("price") == "cap":
                kw["max_mark_price_multiple"] = ctx.dec("cap", D("1.0"), D("1.1"))
            (m.buy if op == "buy" else m.sell)(target, n, **kw)
    except Exception as e:
        label = stem(e)
        ctx.outcome("rejected:" + label)
        states_equal(ctx, before, w.raw(), f"deribit.{op} rejected[{label}]")
        return
    ctx.outcome("accepted")
    if p.get("closed_market") and op in ("buy", "sell"):
        ctx.check(f"deribit.{op}: closed market rejects the operation", False)
    after = w.raw()
    ctx.check("CANARY accepted operation changes nothing", sand_eq(before, after))


def sand_eq(a, b):
    from ..symx import sand

    return sand(a["cash"] == b["cash"], *[a["wal"][k] == b["wal"][k] for k in a["wal"]])


def scenarios(tier):
    out = []
    base = dict(hold=True)
    cases = [
        ("deposit", dict(op="deposit")),
        ("withdraw", dict(op="withdraw")),
        ("buy/market", dict(op="buy")),
        ("buy/flat", dict(op="buy", hold=False)),
        ("buy/unknown_instrument", dict(op="buy", unknown_instrument=True)),
        ("buy/state_closed", dict(op="buy", state_closed=True)),
        ("buy/fractional_amount", dict(op="buy", fractional=True)),
        ("buy/off_book_price", dict(op="buy", price="off_book")),
        ("buy/limit", dict(op="buy", price="level0")),
        ("buy/cap", dict(op="buy", price="cap")),
        ("buy/closed_market", dict(op="buy", closed_market=True)),
        ("sell/market", dict(op="sell")),
        ("sell/flat", dict(op="sell", hold=False)),
        ("sell/unknown_instrument", dict(op="sell", unknown_instrument=True)),
        ("sell/state_closed", dict(op="sell", state_closed=True)),
        ("sell/off_book_price", dict(op="sell", price="off_book")),
        ("sell/limit", dict(op="sell", price="level0")),
        ("sell/cap", dict(op="sell", price="cap")),
        ("sell/closed_market", dict(op="sell", closed_market=True)),
    ]
    for nm, prm in cases:
        pp = dict(base)
        pp.update(prm)
        canary = "CANARY accepted operation changes nothing" if nm in ("deposit", "withdraw", "buy/market", "sell/market", "buy/limit", "sell/limit") else None
        out.append(Scenario(f"deribit/{nm}", deribit_reject, params=pp, shadows=SHADOWS, entry=(f"DeribitOptionMarket.{pp['op']}",), nlsat=False, max_paths=1500, canary=canary, expect_outcomes=("rejected",)))
    return out
