"""Synthetic bar frames and a small real Actuator + real UniLpMarket for the bar-loop properties (C02, C05, C08, C18, C19)."""
from __future__ import annotations

import contextlib
from datetime import datetime
from decimal import Decimal

import pandas as pd

D = Decimal
START = datetime(2023, 8, 15, 0, 0)

ACTUATOR_SHADOWS = (
    "demeter.core.actuator",
    "demeter.broker._typing",
    "demeter.broker.broker",
    "demeter.broker.market",
    "demeter.utils.application",
    "demeter.uniswap.market",
    "demeter.uniswap.core",
    "demeter.uniswap.helper",
    "demeter.uniswap.liquitidy_math",
    "demeter.uniswap._typing",
    "demeter.strategy.trigger",
    "demeter.strategy.strategy",
)


def quiet_actuator_module():
    """tqdm -> null context and no console output (formatting is not the subject of any property)"""
    import demeter.core.actuator as am
    from ..shadow import null_tqdm
    from .. import symx

    if symx.CUR is not None:  # symbolic mode only; the concrete replay runs the unpatched module
        am.tqdm = null_tqdm()


def uni_frame(n, freq="1min", start=START, ticks=None, liquidity=None, in0=None, in1=None, price=None):
    """market frame with the columns UniLpMarket needs; every cell may be a proxy (object dtype)"""
    idx = pd.date_range(start, periods=n, freq=freq)
    ticks = ticks if ticks is not None else [200000 + 3 * i for i in range(n)]
    df = pd.DataFrame(
        {
            "netAmount0": [0] * n,
            "netAmount1": [0] * n,
            "closeTick": ticks,
            "openTick": ticks,
            "lowestTick": ticks,
            "highestTick": ticks,
            "inAmount0": in0 if in0 is not None else [10**10] * n,
            "inAmount1": in1 if in1 is not None else [10**19] * n,
            "currentLiquidity": liquidity if liquidity is not None else [10**18] * n,
        },
        index=idx,
        dtype=object,
    )
    return df


def make_uni(n, freq="1min", start=START, token0_quote=True, frame=None, fee=0.05, with_price=True, name="uni"):
    """real UniLpMarket over a synthetic frame; price columns come from the repo's own _add_statistic_column"""
    from demeter import TokenInfo, MarketInfo
    from demeter.uniswap import UniLpMarket, UniV3Pool
    from demeter.uniswap.helper import _add_statistic_column

    usdc, eth = TokenInfo("USDC", 6), TokenInfo("ETH", 18)
    pool = UniV3Pool(usdc, eth, fee, usdc if token0_quote else eth)
    df = frame if frame is not None else uni_frame(n, freq, start)
    if with_price and "price" not in df.columns:
        _add_statistic_column(df, pool)
    m = UniLpMarket(MarketInfo(name), pool, data=df)
    return m, usdc, eth, pool


def make_actuator(markets, prices: pd.DataFrame, quote, balances):
    from demeter import Actuator

    quiet_actuator_module()
    a = Actuator()
    for m in markets:
        a.broker.add_market(m)
    for tok, bal in balances.items():
        a.broker.set_balance(tok, bal)
    a.set_price(prices, quote)
    return a


def run_quiet(actuator):
    import io

    with contextlib.redirect_stdout(io.StringIO()):
        actuator.run(print_result=False)
