"""Squeeth world: real SqueethMarket + its real oSQTH/WETH UniLpMarket + Broker, over a symbolic market row."""
from __future__ import annotations

from decimal import Decimal

import pandas as pd

from ..symx import ite, sand, sor, snot, smin, smax, sabs, is_sym

D = Decimal
SHADOWS = (
    "demeter.squeeth.market",
    "demeter.squeeth.helper",
    "demeter.squeeth._typing",
    "demeter.uniswap.market",
    "demeter.uniswap.core",
    "demeter.uniswap.helper",
    "demeter.uniswap.liquitidy_math",
    "demeter.uniswap._typing",
    "demeter.broker._typing",
    "demeter.broker.broker",
    "demeter.broker.market",
    "demeter.utils.application",
)
TICK = 22073  # oSQTH/WETH pool tick used by the repo's own squeeth tests (mark price ~0.11 ETH per oSQTH)
LP_RANGE = (21000, 23040)  # tick spacing 60 (fee 0.3 %)


class SqueethWorld:
    def __init__(self, ctx, eth_price, osqth_price, norm_factor, timestamp=None, data=None, wallet_weth=None, wallet_osqth=None):
        from demeter import Broker, MarketInfo, MarketTypeEnum, TokenInfo, MarketStatus
        from demeter.squeeth.market import SqueethMarket
        from demeter.squeeth._typing import WETH, oSQTH
        from demeter.uniswap import UniLpMarket, UniV3Pool, UniswapMarketStatus

        self.ctx = ctx
        self.WETH, self.OSQTH = WETH, oSQTH
        self.actions = []
        self.broker = Broker(record_action_callback=self.actions.append)
        self.uni = UniLpMarket(MarketInfo("Uni", MarketTypeEnum.uniswap_v3), UniV3Pool(WETH, oSQTH, 0.3, WETH))
        self.m = SqueethMarket(MarketInfo("Squeeth", MarketTypeEnum.squeeth), self.uni, data=data)
        self.broker.add_market(self.uni)
        self.broker.add_market(self.m)
        self.pool_price = self.uni.tick_to_price(TICK)
        self.uni.set_market_status(
            UniswapMarketStatus(timestamp=None, data=pd.Series(data=[0, 0, 10**20, TICK, self.pool_price], index=["inAmount0", "inAmount1", "currentLiquidity", "closeTick", "price"], dtype=object)),
            price=None,
        )
        row = None
        if data is None:
            row = pd.Series(data=[norm_factor, eth_price, osqth_price], index=["norm_factor", "WETH", "OSQTH"], dtype=object)
        self.m.set_market_status(MarketStatus(timestamp=timestamp, data=row), price=None)
        self.broker.set_balance(WETH, wallet_weth if wallet_weth is not None else D(1000))
        self.broker.set_balance(oSQTH, wallet_osqth if wallet_osqth is not None else D(10000))

    def add_vault(self, collateral, short, lp=None):
        """direct-state vault (reachable by open_deposit_mint at an earlier, safer row); lp = (liquidity, pending_weth, pending_osqth) or None"""
        from demeter.squeeth import Vault, VaultKey
        from demeter.uniswap import PositionInfo, Position

        self.m._max_vault_id += 1
        vid = self.m._max_vault_id
        v = Vault(vid, collateral, short)
        key = VaultKey(vid)
        self.m.vault[key] = v
        if lp is not None:
            liq, p0, p1 = lp
            pos = PositionInfo(*LP_RANGE)
            self.uni._positions[pos] = Position(p0, p1, liq, self.uni.tick_to_price(LP_RANGE[1]), self.uni.tick_to_price(LP_RANGE[0]), self.pool_price, transferred=True)
            v.uni_nft_id = pos
        return key

    def add_free_lp(self, liq, p0=D(0), p1=D(0)):
        """an LP position still held by the user (not in a vault)"""
        from demeter.uniswap import PositionInfo, Position

        pos = PositionInfo(*LP_RANGE)
        self.uni._positions[pos] = Position(p0, p1, liq, self.uni.tick_to_price(LP_RANGE[1]), self.uni.tick_to_price(LP_RANGE[0]), self.pool_price)
        return pos

    def lp_amounts(self, pos):
        """(weth, osqth) held by an LP position incl. pending, by the closed-form v3 amounts at the pool price (harness oracle)"""
        from demeter.uniswap.helper import base_unit_price_to_sqrt_price_x96
        from demeter.uniswap.liquitidy_math import get_sqrt_ratio_at_tick

        p = self.uni._positions[pos]
        sp = D(base_unit_price_to_sqrt_price_x96(self.pool_price, 18, 18, True))
        sa, sb = D(get_sqrt_ratio_at_tick(pos.lower_tick)), D(get_sqrt_ratio_at_tick(pos.upper_tick))
        q96 = D(2**96)
        L = p.liquidity
        from .. import symx

        Ld = symx.sym_dec(L) if isinstance(L, symx.Sym) else D(L)
        a0 = Ld * q96 * (sb - sp) / sb / sp / D(10**18)
        a1 = Ld * (sp - sa) / q96 / D(10**18)
        return a0 + p.pending_amount0, a1 + p.pending_amount1

    def raw(self):
        m = self.m
        vs = {k.id: (v.collateral_amount, v.osqth_short_amount, v.uni_nft_id) for k, v in m.vault.items()}
        pos = {k: (p.liquidity, p.pending_amount0, p.pending_amount1, p.transferred) for k, p in self.uni._positions.items()}
        return dict(vault=vs, pos=pos, weth=self.broker.get_token_balance(self.WETH), osqth=self.broker.get_token_balance(self.OSQTH), n_actions=len(self.actions))


def states_equal(ctx, a, b, prefix):
    items = [(f"{prefix}: wallet WETH unchanged", a["weth"] == b["weth"]), (f"{prefix}: wallet oSQTH unchanged", a["osqth"] == b["osqth"])]
    items.append((f"{prefix}: vault set unchanged", set(a["vault"]) == set(b["vault"])))
    for k in a["vault"]:
        if k in b["vault"]:
            items.append((f"{prefix}: vault collateral unchanged", a["vault"][k][0] == b["vault"][k][0]))
            items.append((f"{prefix}: vault short amount unchanged", a["vault"][k][1] == b["vault"][k][1]))
            items.append((f"{prefix}: vault LP collateral unchanged", a["vault"][k][2] == b["vault"][k][2]))
    items.append((f"{prefix}: LP position set unchanged", set(a["pos"]) == set(b["pos"])))
    for k in a["pos"]:
        if k in b["pos"]:
            x, y = a["pos"][k], b["pos"][k]
            items.append((f"{prefix}: LP position unchanged", sand(x[0] == y[0], x[1] == y[1], x[2] == y[2], x[3] == y[3])))
    items.append((f"{prefix}: action log unchanged", a["n_actions"] == b["n_actions"]))
    return ctx.check_all(items)
