"""Deribit option market: world builder (real DeribitOptionMarket + Broker over a symbolic order-book row)."""
from __future__ import annotations

from datetime import datetime
from decimal import Decimal

import pandas as pd

from ..symx import ite, sand, sor, snot, smin, smax, sabs, is_sym

D = Decimal
SHADOWS = (
    "demeter.deribit.market",
    "demeter.deribit.helper",
    "demeter.deribit._typing",
    "demeter.broker._typing",
    "demeter.broker.broker",
    "demeter.utils.application",
)
NOW = pd.Timestamp("2023-09-01 06:00:00")
EXPIRY = pd.Timestamp("2023-09-22 08:00:00")
FEE_STEP = D("0.000001")


def _flt(ctx, x):
    """int-valued proxy -> float kind (order sizes are floats in the data)"""
    from .. import symx

    return symx.sym_float(x) if isinstance(x, symx.Sym) else float(x)


def _dec(x):
    from .. import symx

    return symx.sym_dec(x) if isinstance(x, symx.Sym) else D(x)


class DeribitWorld:
    """instruments: list of dict(name, type, strike, asks=[(price, size)], bids=[...], mark, underlying, state)"""

    def __init__(self, ctx, instruments, token="eth", timestamp=NOW, cash=None, wallet=None, price_index=None):
        from demeter import Broker, MarketInfo, MarketTypeEnum
        from demeter.deribit import DeribitOptionMarket, DeribitMarketStatus

        self.ctx = ctx
        self.actions = []
        tok = DeribitOptionMarket.ETH if token == "eth" else DeribitOptionMarket.BTC
        self.tok = tok
        self.market = DeribitOptionMarket(MarketInfo("deribit", MarketTypeEnum.deribit_option), tok)
        self.broker = Broker(record_action_callback=self.actions.append)
        self.broker.add_market(self.market)
        self.instruments = {i["name"]: i for i in instruments}
        self.set_row(instruments, timestamp, price_index)
        self.broker.set_balance(tok, wallet if wallet is not None else D(0))
        if cash is not None:
            self.market.balance = cash

    def set_row(self, instruments, timestamp=NOW, price_index=None):
        from demeter.deribit import DeribitMarketStatus

        rows = {}
        for i in instruments:
            rows[i["name"]] = dict(
                state=i.get("state", "open"), type=i["type"], strike_price=i["strike"], expiry_time=i.get("expiry", EXPIRY),
                vega=0.0, theta=0.0, rho=0.0, gamma=i.get("gamma", 0.003), delta=i.get("delta", 0.5),
                underlying_price=i["underlying"], settlement_price=None, mark_price=i["mark"], mark_iv=30.0, last_price=None,
                interest_rate=0, bid_iv=0.0, best_bid_price=0.0, best_bid_amount=0.0, ask_iv=0.0, best_ask_price=0.0, best_ask_amount=0.0,
                asks=[[p, s] for p, s in i["asks"]], bids=[[p, s] for p, s in i["bids"]],
            )
        df = pd.DataFrame.from_dict(rows, orient="index")
        df = df.astype(object)
        df.index.name = "instrument_name"
        und = instruments[0]["underlying"] if instruments else 1650.0
        self.market.set_market_status(DeribitMarketStatus(timestamp=timestamp, data=df), price=pd.Series([price_index if price_index is not None else und], index=[self.tok.name], dtype=object))

    def hold(self, name, amount, avg_buy=D("0.03"), sold=None, avg_sell=D("0.025")):
        """direct-state holding (reachable by an earlier buy; with `sold`, by an earlier buy of amount + sold and a sale of `sold`)"""
        from demeter.deribit import OptionPosition, OptionKind

        i = self.instruments[name]
        if sold is None:
            self.market.positions[name] = OptionPosition(name, i.get("expiry", EXPIRY), i["strike"], OptionKind(i["type"]), amount, avg_buy, amount, D(0), D(0))
        else:
            self.market.positions[name] = OptionPosition(name, i.get("expiry", EXPIRY), i["strike"], OptionKind(i["type"]), amount, avg_buy, amount + sold, avg_sell, sold)

    def book(self, name, side):
        lst = self.market.market_status.data.loc[name][side]
        return [(l[0], l[1]) for l in lst]

    def raw(self):
        m = self.market
        pos = {k: (p.amount, p.avg_buy_price, p.buy_amount, p.avg_sell_price, p.sell_amount) for k, p in m.positions.items()}
        books = {}
        for n in m.market_status.data.index:
            for side in ("asks", "bids"):
                books[(n, side)] = [(l[0], l[1]) for l in m.market_status.data.loc[n][side]]
        wal = {t.name: a.balance for t, a in self.broker._assets.items()}
        return dict(cash=m.balance, pos=pos, books=books, wal=wal, n_actions=len(self.actions))


def states_equal(ctx, a, b, prefix):
    items = [(f"{prefix}: cash unchanged", a["cash"] == b["cash"])]
    items.append((f"{prefix}: position key set unchanged", set(a["pos"]) == set(b["pos"])))
    for k in a["pos"]:
        if k in b["pos"]:
            for j, f in enumerate(("amount", "avg_buy_price", "buy_amount", "avg_sell_price", "sell_amount")):
                items.append((f"{prefix}: position.{f} unchanged", a["pos"][k][j] == b["pos"][k][j]))
    for k in a["books"]:
        same_len = len(a["books"][k]) == len(b["books"].get(k, []))
        items.append((f"{prefix}: visible {k[1]} book unchanged", same_len and sand(*[sand(x[0] == y[0], x[1] == y[1]) for x, y in zip(a["books"][k], b["books"][k])])))
    for k in a["wal"]:
        items.append((f"{prefix}: wallet unchanged", a["wal"][k] == b["wal"].get(k)))
    items.append((f"{prefix}: action log unchanged", a["n_actions"] == b["n_actions"]))
    return ctx.check_all(items)


def sym_book(ctx, name, n_asks, n_bids, mark=0.0287, sym_prices=False, prefix="", step=0.0005):
    """order book with symbolic integer sizes (as floats, like the data) and ascending asks / descending bids around mark"""
    asks, bids = [], []
    for k in range(n_asks):
        size = _flt(ctx, ctx.int_(f"{prefix}ask{k}_size", 0, 2000))
        asks.append((round(mark + step * (k + 0.4), 6), size))
    for k in range(n_bids):
        size = _flt(ctx, ctx.int_(f"{prefix}bid{k}_size", 0, 2000))
        bids.append((round(mark - step * (k + 0.4), 6), size))
    return dict(name=name, type="CALL", strike=1650, asks=asks, bids=bids, mark=mark, underlying=1651.94)


def trade_fee(n, premium):
    """Deribit taker fee: min(0.03% x contracts, 12.5% x premium), rounded half-up to 1e-6 (non-forking, for oracles)"""
    raw = smin(D("0.0003") * n, D("0.125") * premium)
    return raw  # callers compare with +-FEE_STEP/2
