"""One user operation on an AaveWorld with symbolic arguments (shared by C03, C04, C11, C13)."""
from __future__ import annotations

import re
from decimal import Decimal

from ..symx import ite, sand, sor, snot

D = Decimal
OPS = ("supply", "withdraw", "borrow", "repay", "repay_coll", "change_collateral")


def stem(e: BaseException) -> str:
    msg = getattr(e, "message", None) or (e.args[0] if e.args else "")
    msg = str(msg)
    msg = re.split(r"[<0-9{]", msg)[0].strip()
    msg = re.sub(r"\b(WETH|DAI|USDC|USDT|WMATIC|NOCOLL|NOBORROW)\b", "T", msg)
    return f"{type(e).__name__}:{msg[:48]}"


def apply_op(ctx, w, op, tok, tok2=None, amount_hi=10**10):
    """runs one real operation; returns (accepted: bool, label: str, args: dict)"""
    m = w.market
    t = w.tok(tok)
    args = {}
    try:
        if op == "supply":
            a = ctx.dec("amt", 0, amount_hi)
            c = ctx.flag("arg_collateral")
            args = dict(amount=a, collateral=c)
            m.supply(t, a, c)
        elif op == "withdraw":
            if ctx.flag("arg_none"):
                args = dict(amount=None)
                m.withdraw(t)
            else:
                a = ctx.dec("amt", 0, amount_hi)
                args = dict(amount=a)
                m.withdraw(t, a)
        elif op == "borrow":
            if ctx.flag("arg_none"):
                args = dict(amount=None)
                m.borrow(t)
            else:
                a = ctx.dec("amt", 0, amount_hi)
                args = dict(amount=a)
                m.borrow(t, a)
        elif op == "repay":
            if ctx.flag("arg_none"):
                args = dict(amount=None)
                m.repay(t)
            else:
                a = ctx.dec("amt", 0, amount_hi)
                args = dict(amount=a)
                m.repay(t, a)
        elif op == "repay_coll":
            ct = w.tok(tok2) if tok2 else None
            if ctx.flag("arg_none"):
                args = dict(amount=None, coll=tok2)
                m.repay(t, None, repay_with_collateral=True, repay_collateral_token=ct)
            else:
                a = ctx.dec("amt", 0, amount_hi)
                args = dict(amount=a, coll=tok2)
                m.repay(t, a, repay_with_collateral=True, repay_collateral_token=ct)
        elif op == "change_collateral":
            c = ctx.flag("arg_collateral")
            args = dict(collateral=c)
            m.change_collateral(t, c)
        else:
            raise ValueError(op)
    except Exception as e:
        return False, stem(e), args
    return True, "accepted", args


def op_targets(shape, op):
    """(tok, tok2) pairs worth driving for this op on this shape"""
    names = list(shape)
    sup = [n for n in names if shape[n][0]]
    debt = [n for n in names if shape[n][1]]
    if op == "supply":
        return [(n, None) for n in names]
    if op == "withdraw":
        return [(n, None) for n in names]  # includes tokens without a supply (unknown position)
    if op == "borrow":
        return [(n, None) for n in names]
    if op == "repay":
        return [(n, None) for n in names]
    if op == "repay_coll":
        out = []
        for d in debt or names[:1]:
            for s in names:
                out.append((d, s))
        return out
    if op == "change_collateral":
        return [(n, None) for n in names]
    raise ValueError(op)
