"""Scenario lists for C01 / C03 (shared worlds in nv.py)."""
from decimal import Decimal

from ..harness import Scenario
from . import nv

D = Decimal


def scenarios(prop, tier):
    out = []
    out += _aave(prop, tier)
    out += _deribit(prop, tier)
    out += _gmx(prop, tier)
    out += _squeeth(prop, tier)
    out += _uni(prop, tier)
    if prop == "C01":
        from . import nv_bars

        for n in (3,) if tier == "quick" else (4, 6):
            out.append(Scenario(f"bar_history/uni+aave+deribit/n{n}", nv_bars.bar_history, params=dict(bars=n), shadows=nv_bars.SHADOWS, entry=("Actuator.run", "Broker.get_account_status", "UniLpMarket.get_market_balance", "AaveV3Market.get_market_balance", "DeribitOptionMarket.get_market_balance"), nlsat=False, relax_int=True, round_mode="uf", max_paths=600, time_budget_s=300, witness_cap=8, canary="CANARY the markets never hold anything"))
    return out


def _uni(prop, tier):
    from ..props.c09 import SHADOWS

    out = []
    kw = dict(shadows=SHADOWS, nlsat=False, relax_int=True, max_paths=800, time_budget_s=240, query_timeout_ms=20000, witness_cap=16)
    ticks = (200013,) if tier == "quick" else (200013, -276327)
    for t in ticks:
        for t0q in (True, False):
            for aq in ("same", "other"):
                if tier == "quick" and aq == "other" and not t0q:
                    continue
                base = dict(prop=prop, market="uni", tick=t, t0q=t0q, account_quote=aq)
                tag = f"uni/t{t}/{'t0quote' if t0q else 't0base'}/{aq}"
                if prop == "C01":
                    for poss in (("inside",), ("below", "above"), ("inside", "wide")):
                        out.append(Scenario(f"{tag}/valuation/{'+'.join(poss)}", nv.nv_step, params=dict(base, op=None, positions=poss, allow_dry=True), entry=("Broker.get_account_status", "UniLpMarket.get_market_balance"), **kw))
                cases = []
                for rg in ("below", "inside", "above"):
                    cases.append(("add", dict(positions=(), add_range=rg)))
                    cases.append(("remove", dict(positions=(rg,))))
                    cases.append(("remove", dict(positions=(rg,), partial=True, collect=False)))
                cases += [
                    ("add", dict(positions=("inside",), add_range="inside")),
                    ("collect", dict(positions=("inside",))),
                    ("collect", dict(positions=("inside",), allow_dry=True, caps=False)),
                    ("remove", dict(positions=("inside", "wide"), partial=True)),
                    ("buy", dict(positions=("inside",))),
                    ("sell", dict(positions=())),
                    ("swap_b2q", dict(positions=())),
                    ("swap_q2b", dict(positions=("below",))),
                    ("even_rebalance", dict(positions=())),
                    ("add_by_value", dict(positions=())),
                    ("remove_all", dict(positions=("inside", "below"))),
                ]
                for op, extra in cases:
                    if tier == "quick" and aq == "other" and op not in ("add", "remove", "buy", "collect"):
                        continue
                    nm = f"{tag}/{op}/" + ",".join(f"{k}={'+'.join(v) if isinstance(v, tuple) else v}" for k, v in extra.items())
                    out.append(Scenario(nm, nv.nv_step, params=dict(base, op=op, **extra), entry=(f"UniLpMarket.{op}", "Broker.get_account_status"), canary=_canary(prop) if (op, t0q, aq, extra.get("add_range")) == ("add", True, "same", "inside") and not extra["positions"] else None, **kw))
                if t0q and aq == "same" and t == ticks[0]:
                    # another pool (other decimals, fee tier, token order) has been used in the same process before
                    for op, extra in (("add", dict(positions=(), add_range="inside")), ("remove", dict(positions=("inside",))), ("collect", dict(positions=("inside",)))):
                        out.append(Scenario(f"{tag}/{op}/another_pool_in_the_process", nv.nv_step, params=dict(base, op=op, neighbour_market=True, **extra), entry=(f"UniLpMarket.{op}", "Broker.get_account_status"), **kw))
                if prop == "C04" and aq == "same":
                    for op in ("add_misaligned_ticks", "add_inverted_range", "swap_same_token", "swap_foreign_token"):
                        out.append(Scenario(f"{tag}/{op}", nv.nv_step, params=dict(base, op=op, positions=("inside",)), entry=("UniLpMarket",), expect_outcomes=("rejected",), **kw))
                chains = [("add", "remove", dict(positions=(), add_range="inside")), ("remove", "collect", dict(positions=("inside",), partial=True, collect=False)), ("buy", "sell", dict(positions=()))]
                for op, op2, extra in chains:
                    if tier == "quick" and (aq == "other" or not t0q):
                        continue
                    out.append(Scenario(f"{tag}/{op}+{op2}", nv.nv_step, params=dict(base, op=op, op2=op2, **extra), entry=(f"UniLpMarket.{op}", f"UniLpMarket.{op2}"), **kw))
    return out


def _squeeth(prop, tier):
    from .squeeth import SHADOWS

    out = []
    kw = dict(shadows=SHADOWS, nlsat=False, relax_int=True, max_paths=800, query_timeout_ms=20000)
    if prop == "C01":
        for lp, free in ((False, False), (True, False), (True, True), (False, True)):
            out.append(Scenario(f"squeeth/valuation/{'lp' if lp else 'nolp'}{'+free' if free else ''}", nv.nv_step, params=dict(prop=prop, market="squeeth", op=None, lp=lp, free_lp=free), entry=("Broker.get_account_status", "SqueethMarket.get_market_balance", "UniLpMarket.get_market_balance"), **kw))
    cases = [("mint", {}), ("mint", dict(lp=True)), ("open", {}), ("deposit", {}), ("burn_withdraw", {}), ("burn_withdraw", dict(lp=True)), ("withdraw_lp", dict(lp=True)), ("deposit_lp", dict(free_lp=True)), ("buy_squeeth", {}), ("sell_squeeth", {}), ("deposit", dict(short=False))]
    for op, extra in cases:
        nm = f"squeeth/{op}" + "".join(f"/{k}" for k in extra)
        out.append(Scenario(nm, nv.nv_step, params=dict(dict(prop=prop, market="squeeth", op=op), **extra), entry=(f"SqueethMarket.{op}", "Broker.get_account_status"), canary=_canary(prop) if nm == "squeeth/deposit" else None, **kw))
    if prop == "C04":
        # invalid-argument rejections (unknown vault, position not in the vault, a second LP position for a vault that has one)
        for op, extra in (("deposit_unknown_vault", {}), ("burn_unknown_vault", {}), ("withdraw_lp_not_in_vault", dict(lp=True)), ("mint_with_second_lp", dict(lp=True, free_lp=True))):
            out.append(Scenario(f"squeeth/{op}", nv.nv_step, params=dict(dict(prop=prop, market="squeeth", op=op), **extra), entry=("SqueethMarket",), expect_outcomes=("rejected",), **kw))
    chains = [("mint", "burn_withdraw"), ("deposit_lp", "withdraw_lp"), ("buy_squeeth", "sell_squeeth")]
    for op, op2 in chains:
        if tier == "quick" and op != "deposit_lp":
            continue
        extra = dict(free_lp=True) if op == "deposit_lp" else {}
        out.append(Scenario(f"squeeth/{op}+{op2}", nv.nv_step, params=dict(dict(prop=prop, market="squeeth", op=op, op2=op2), **extra), entry=(f"SqueethMarket.{op}", f"SqueethMarket.{op2}"), **kw))
    return out


def _deribit(prop, tier):
    from .deribit import SHADOWS

    out = []
    kw = dict(shadows=SHADOWS, nlsat=False, max_paths=1500)
    cases = [("deposit", {}), ("withdraw", {}), ("buy", {}), ("buy", dict(hold=False)), ("buy", dict(mode="cap")), ("sell", {}), ("sell", dict(hold=False)), ("sell", dict(mode="cap")), ("buy", dict(mode="limit")), ("sell", dict(mode="limit"))]
    if prop == "C01":
        out.append(Scenario("deribit/valuation", nv.nv_step, params=dict(prop=prop, market="deribit", op=None, hold=True, hold2=True), entry=("Broker.get_account_status", "DeribitOptionMarket.get_market_balance"), **kw))
    for op, extra in cases:
        nm = f"deribit/{op}" + "".join(f"/{k}={v}" for k, v in extra.items())
        out.append(Scenario(nm, nv.nv_step, params=dict(dict(prop=prop, market="deribit", op=op, hold2=True), **extra), entry=(f"DeribitOptionMarket.{op}", "Broker.get_account_status"), canary=_canary(prop) if nm == "deribit/deposit" else None, **kw))
    # another option market (BTC) has been used in the same process before
    for op in ("buy", "sell"):
        out.append(Scenario(f"deribit/{op}/another_option_market_in_the_process", nv.nv_step, params=dict(prop=prop, market="deribit", op=op, hold2=True, neighbour_market=True), entry=(f"DeribitOptionMarket.{op}", "Broker.get_account_status"), **kw))
    chains = [("buy", "sell"), ("sell", "sell"), ("deposit", "withdraw"), ("buy", "buy")]
    for op, op2 in chains:
        if tier == "quick" and (op, op2) not in (("buy", "sell"), ("sell", "sell")):
            continue
        out.append(Scenario(f"deribit/{op}+{op2}", nv.nv_step, params=dict(prop=prop, market="deribit", op=op, op2=op2, levels=2 if tier == "quick" else 3), entry=(f"DeribitOptionMarket.{op}", f"DeribitOptionMarket.{op2}"), **dict(kw, max_paths=3000)))
    return out


def _gmx(prop, tier):
    from ..props.c17 import V1_SHADOWS, V2_SHADOWS, V2_ROWS

    out = []
    shapes1 = ("near_below", "above", "csv") if tier == "quick" else ("far_below", "near_below", "at", "near_above", "above", "far_above", "empty", "zero_weight", "csv")
    toks = ("weth", "usdc")
    kw1 = dict(shadows=V1_SHADOWS, nlsat=False, relax_int=True, round_mode="uf", query_timeout_ms=30000, max_paths=600)
    for sh in shapes1:
        for tk in toks:
            if prop == "C01" and tk == "weth":
                out.append(Scenario(f"gmx1/{sh}/valuation", nv.nv_step, params=dict(prop=prop, market="gmx1", shape=sh, token=tk, op=None), entry=("Broker.get_account_status", "GmxMarket.get_market_balance"), **kw1))
            for op in ("buy_glp", "sell_glp"):
                out.append(Scenario(f"gmx1/{sh}/{tk}/{op}", nv.nv_step, params=dict(prop=prop, market="gmx1", shape=sh, token=tk, op=op), entry=(f"GmxMarket.{op}", "Broker.get_account_status"), canary=_canary(prop) if (sh, tk, op) == ("csv", "weth", "buy_glp") else None, **kw1))
            if tier != "quick" or sh == "csv":
                out.append(Scenario(f"gmx1/{sh}/{tk}/buy_glp+sell_glp", nv.nv_step, params=dict(prop=prop, market="gmx1", shape=sh, token=tk, op="buy_glp", op2="sell_glp"), entry=("GmxMarket.buy_glp", "GmxMarket.sell_glp"), **kw1))
    # the same market object has served an earlier bar with other weights / supply / pool composition (every fee figure looked up there)
    for op in ("buy_glp", "sell_glp"):
        out.append(Scenario(f"gmx1/near_below/weth/{op}/after_another_bar", nv.nv_step, params=dict(prop=prop, market="gmx1", shape="near_below", token="weth", op=op, prior_bar=True), entry=(f"GmxMarket.{op}", "GmxMarket.set_market_status", "Broker.get_account_status"), **kw1))
    # another GLP market (other tokens, weights, decimals) has been used in the same process before
    for op in ("buy_glp", "sell_glp"):
        out.append(Scenario(f"gmx1/near_below/usdc/{op}/another_glp_market_in_the_process", nv.nv_step, params=dict(prop=prop, market="gmx1", shape="near_below", token="usdc", op=op, neighbour_market=True), entry=(f"GmxMarket.{op}", "Broker.get_account_status"), **kw1))
    kw2 = dict(shadows=V2_SHADOWS, max_paths=600, float_model=True)
    shapes2 = list(V2_ROWS) if tier != "quick" else list(V2_ROWS)[:3]
    for sh in shapes2:
        if prop == "C01":
            out.append(Scenario(f"gmx2/{sh}/valuation", nv.nv_step, params=dict(prop=prop, market="gmx2", shape=sh, op=None), entry=("Broker.get_account_status", "GmxV2Market.get_market_balance"), **kw2))
        for side in ("long", "short", "both"):
            out.append(Scenario(f"gmx2/{sh}/deposit/{side}", nv.nv_step, params=dict(prop=prop, market="gmx2", shape=sh, op="deposit", side=side), entry=("GmxV2Market.deposit", "Broker.get_account_status"), canary=_canary(prop) if (sh, side) == (shapes2[0], "both") else None, **kw2))
        if sh == shapes2[0]:
            for op, extra in (("deposit", dict(side="both")), ("withdraw", {})):
                out.append(Scenario(f"gmx2/{sh}/{op}/another_gm_market_in_the_process", nv.nv_step, params=dict(dict(prop=prop, market="gmx2", shape=sh, op=op, neighbour_market=True), **extra), entry=(f"GmxV2Market.{op}", "Broker.get_account_status"), **kw2))
        out.append(Scenario(f"gmx2/{sh}/withdraw", nv.nv_step, params=dict(prop=prop, market="gmx2", shape=sh, op="withdraw"), entry=("GmxV2Market.withdraw", "Broker.get_account_status"), **kw2))
        if tier != "quick":
            out.append(Scenario(f"gmx2/{sh}/deposit+withdraw", nv.nv_step, params=dict(prop=prop, market="gmx2", shape=sh, op="deposit", op2="withdraw", side="both"), entry=("GmxV2Market.deposit", "GmxV2Market.withdraw"), **kw2))
    return out


def _canary(prop):
    return "CANARY operations never change the wallet" if prop == "C03" else "CANARY markets hold nothing"


def _aave(prop, tier):
    from .aave import SHADOWS, SHAPES_QUICK, SHAPES_THOROUGH
    from .aave_ops import OPS, op_targets

    shapes = SHAPES_QUICK if tier == "quick" else SHAPES_THOROUGH
    out = []
    for sn, shape in shapes.items():
        if prop == "C01":
            out.append(Scenario(f"aave/{sn}/valuation", nv.nv_step, params=dict(prop=prop, market="aave", shape=shape, op=None, tok=None), shadows=SHADOWS, round_mode="uf", entry=("Broker.get_account_status", "AaveV3Market.get_market_balance")))
        for op in OPS:
            for tok, tok2 in op_targets(shape, op):
                if tier == "quick" and op == "repay_coll" and sn not in ("A", "B"):
                    continue
                out.append(
                    Scenario(
                        f"aave/{sn}/{op}/{tok}{'/' + tok2 if tok2 else ''}",
                        nv.nv_step,
                        params=dict(prop=prop, market="aave", shape=shape, op=op, tok=tok, tok2=tok2),
                        shadows=SHADOWS, round_mode="uf",
                        entry=(f"AaveV3Market.{op.replace('repay_coll', 'repay')}", "Broker.get_account_status"),
                        max_paths=600,
                        canary=_canary(prop) if (sn, op, tok) == ("A", "supply", "WETH") else None,
                    )
                )
    # two-operation chains at the same frozen row (same token): the second operation sees the caches the first one left
    chains = [("supply", "withdraw"), ("borrow", "borrow"), ("borrow", "repay"), ("withdraw", "withdraw"), ("supply", "borrow"), ("repay", "borrow"), ("withdraw", "supply")]
    quick_chains = {("borrow", "borrow", "DAI"), ("supply", "withdraw", "WETH"), ("withdraw", "withdraw", "WETH"), ("borrow", "repay", "DAI"), ("withdraw", "supply", "WETH")}
    for sn in ("A",) if tier == "quick" else tuple(shapes):
        shape = shapes[sn]
        for op, op2 in chains:
            for tok in shape:
                if tier == "quick" and (op, op2, tok) not in quick_chains:
                    continue
                out.append(
                    Scenario(
                        f"aave/{sn}/{op}+{op2}/{tok}",
                        nv.nv_step,
                        params=dict(prop=prop, market="aave", shape=shape, op=op, op2=op2, tok=tok, tok2=None),
                        shadows=SHADOWS, round_mode="uf",
                        entry=(f"AaveV3Market.{op}", f"AaveV3Market.{op2}", "Broker.get_account_status"),
                        max_paths=900,
                    )
                )
    return out
