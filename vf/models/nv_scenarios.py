"""Scenario lists for C01 / C03 (shared worlds in nv.py)."""
from decimal import Decimal

from ..harness import Scenario
from . import nv

D = Decimal


def scenarios(prop, tier):
    out = []
    out += _aave(prop, tier)
    out += _deribit(prop, tier)
    out += _gmx(prop, tier)
    return out


def _deribit(prop, tier):
    from .deribit import SHADOWS

    out = []
    kw = dict(shadows=SHADOWS, nlsat=False, max_paths=1500)
    cases = [("deposit", {}), ("withdraw", {}), ("buy", {}), ("buy", dict(hold=False)), ("buy", dict(mode="cap")), ("sell", {}), ("sell", dict(hold=False)), ("sell", dict(mode="cap")), ("buy", dict(mode="limit")), ("sell", dict(mode="limit"))]
    if prop == "C01":
        out.append(Scenario("deribit/valuation", nv.nv_step, params=dict(prop=prop, market="deribit", op=None, hold=True, hold2=True), entry=("Broker.get_account_status", "DeribitOptionMarket.get_market_balance"), **kw))
    for op, extra in cases:
        nm = f"deribit/{op}" + "".join(f"/{k}={v}" for k, v in extra.items())
        out.append(Scenario(nm, nv.nv_step, params=dict(dict(prop=prop, market="deribit", op=op, hold2=True), **extra), entry=(f"DeribitOptionMarket.{op}", "Broker.get_account_status"), canary=_canary(prop) if nm == "deribit/deposit" else None, **kw))
    chains = [("buy", "sell"), ("sell", "sell"), ("deposit", "withdraw"), ("buy", "buy")]
    for op, op2 in chains:
        if tier == "quick" and (op, op2) not in (("buy", "sell"), ("sell", "sell")):
            continue
        out.append(Scenario(f"deribit/{op}+{op2}", nv.nv_step, params=dict(prop=prop, market="deribit", op=op, op2=op2, levels=2 if tier == "quick" else 3), entry=(f"DeribitOptionMarket.{op}", f"DeribitOptionMarket.{op2}"), **dict(kw, max_paths=3000)))
    return out


def _gmx(prop, tier):
    from ..props.c17 import V1_SHADOWS, V2_SHADOWS, V2_ROWS

    out = []
    shapes1 = ("near_below", "above", "csv") if tier == "quick" else ("far_below", "near_below", "at", "near_above", "above", "far_above", "empty", "zero_weight", "csv")
    toks = ("weth", "usdc")
    kw1 = dict(shadows=V1_SHADOWS, nlsat=False, relax_int=True, round_mode="uf", query_timeout_ms=30000, max_paths=600)
    for sh in shapes1:
        for tk in toks:
            if prop == "C01" and tk == "weth":
                out.append(Scenario(f"gmx1/{sh}/valuation", nv.nv_step, params=dict(prop=prop, market="gmx1", shape=sh, token=tk, op=None), entry=("Broker.get_account_status", "GmxMarket.get_market_balance"), **kw1))
            for op in ("buy_glp", "sell_glp"):
                out.append(Scenario(f"gmx1/{sh}/{tk}/{op}", nv.nv_step, params=dict(prop=prop, market="gmx1", shape=sh, token=tk, op=op), entry=(f"GmxMarket.{op}", "Broker.get_account_status"), canary=_canary(prop) if (sh, tk, op) == ("csv", "weth", "buy_glp") else None, **kw1))
            if tier != "quick" or sh == "csv":
                out.append(Scenario(f"gmx1/{sh}/{tk}/buy_glp+sell_glp", nv.nv_step, params=dict(prop=prop, market="gmx1", shape=sh, token=tk, op="buy_glp", op2="sell_glp"), entry=("GmxMarket.buy_glp", "GmxMarket.sell_glp"), **kw1))
    kw2 = dict(shadows=V2_SHADOWS, max_paths=600)
    shapes2 = list(V2_ROWS) if tier != "quick" else list(V2_ROWS)[:3]
    for sh in shapes2:
        if prop == "C01":
            out.append(Scenario(f"gmx2/{sh}/valuation", nv.nv_step, params=dict(prop=prop, market="gmx2", shape=sh, op=None), entry=("Broker.get_account_status", "GmxV2Market.get_market_balance"), **kw2))
        for side in ("long", "short", "both"):
            out.append(Scenario(f"gmx2/{sh}/deposit/{side}", nv.nv_step, params=dict(prop=prop, market="gmx2", shape=sh, op="deposit", side=side), entry=("GmxV2Market.deposit", "Broker.get_account_status"), canary=_canary(prop) if (sh, side) == (shapes2[0], "both") else None, **kw2))
        out.append(Scenario(f"gmx2/{sh}/withdraw", nv.nv_step, params=dict(prop=prop, market="gmx2", shape=sh, op="withdraw"), entry=("GmxV2Market.withdraw", "Broker.get_account_status"), **kw2))
        if tier != "quick":
            out.append(Scenario(f"gmx2/{sh}/deposit+withdraw", nv.nv_step, params=dict(prop=prop, market="gmx2", shape=sh, op="deposit", op2="withdraw", side="both"), entry=("GmxV2Market.deposit", "GmxV2Market.withdraw"), **kw2))
    return out


def _canary(prop):
    return "CANARY operations never change the wallet" if prop == "C03" else "CANARY markets hold nothing"


def _aave(prop, tier):
    from .aave import SHADOWS, SHAPES_QUICK, SHAPES_THOROUGH
    from .aave_ops import OPS, op_targets

    shapes = SHAPES_QUICK if tier == "quick" else SHAPES_THOROUGH
    out = []
    for sn, shape in shapes.items():
        if prop == "C01":
            out.append(Scenario(f"aave/{sn}/valuation", nv.nv_step, params=dict(prop=prop, market="aave", shape=shape, op=None, tok=None), shadows=SHADOWS, round_mode="uf", entry=("Broker.get_account_status", "AaveV3Market.get_market_balance")))
        for op in OPS:
            for tok, tok2 in op_targets(shape, op):
                if tier == "quick" and op == "repay_coll" and sn not in ("A", "B"):
                    continue
                out.append(
                    Scenario(
                        f"aave/{sn}/{op}/{tok}{'/' + tok2 if tok2 else ''}",
                        nv.nv_step,
                        params=dict(prop=prop, market="aave", shape=shape, op=op, tok=tok, tok2=tok2),
                        shadows=SHADOWS, round_mode="uf",
                        entry=(f"AaveV3Market.{op.replace('repay_coll', 'repay')}", "Broker.get_account_status"),
                        max_paths=600,
                        canary=_canary(prop) if (sn, op, tok) == ("A", "supply", "WETH") else None,
                    )
                )
    # two-operation chains at the same frozen row (same token): the second operation sees the caches the first one left
    chains = [("supply", "withdraw"), ("borrow", "borrow"), ("borrow", "repay"), ("withdraw", "withdraw"), ("supply", "borrow"), ("repay", "borrow"), ("withdraw", "supply")]
    for sn in ("B", "C") if tier == "quick" else tuple(shapes):
        shape = shapes[sn]
        for op, op2 in chains:
            for tok in shape:
                if tier == "quick" and tok not in ("WETH", "DAI", "WMATIC", "USDT"):
                    continue
                out.append(
                    Scenario(
                        f"aave/{sn}/{op}+{op2}/{tok}",
                        nv.nv_step,
                        params=dict(prop=prop, market="aave", shape=shape, op=op, op2=op2, tok=tok, tok2=None),
                        shadows=SHADOWS, round_mode="uf",
                        entry=(f"AaveV3Market.{op}", f"AaveV3Market.{op2}", "Broker.get_account_status"),
                        max_paths=900,
                    )
                )
    return out
