"""C01 through the real Actuator: three markets in one account (Uniswap LP minutely, Aave v3 minutely, Deribit hourly with the
hour boundary inside the window); the strategy trades symbolic amounts; for EVERY bar the recorded AccountStatus is compared
with the harness's own valuation of the raw holdings snapshotted at the end of that bar."""
from __future__ import annotations

from datetime import datetime
from decimal import Decimal

import pandas as pd

from . import bars
from .nv import N, RHO, v3_amounts_per_liquidity
from ..symx import sand, sor, is_sym

D = Decimal
START = datetime(2023, 9, 22, 6, 58)
SHADOWS = tuple(
    dict.fromkeys(
        bars.ACTUATOR_SHADOWS
        + ("demeter.deribit.market", "demeter.deribit.helper", "demeter.deribit._typing", "demeter.aave.market", "demeter.aave.core", "demeter.aave.helper", "demeter.aave._typing")
    )
)


def _aave_frame(n, toks):
    from .aave import COLS

    idx = pd.date_range(START, periods=n, freq="1min")
    data = {}
    for j, tn in enumerate(toks):
        for c in COLS:
            if c == "liquidity_index":
                col = [D("1.01") + D("0.0003") * i + D("0.01") * j for i in range(n)]
            elif c == "variable_borrow_index":
                col = [D("1.04") + D("0.0007") * i + D("0.02") * j for i in range(n)]
            else:
                col = [D("0.03")] * n
            data[(tn, c)] = col
    df = pd.DataFrame(data, index=idx, dtype=object)
    df.columns = pd.MultiIndex.from_tuples(df.columns)
    return df


def bar_history(ctx):
    from demeter import Strategy, TokenInfo, MarketInfo, MarketTypeEnum
    from demeter.aave import AaveV3Market
    from demeter.uniswap import UniLpMarket, UniV3Pool
    from demeter.uniswap.helper import _add_statistic_column, get_price_from_data
    from ..props.c05 import _deribit_market
    from .aave import RISK_CSV, risk_table

    p = ctx.p
    n = p["bars"]
    usdc, weth, dai = TokenInfo("USDC", 6), TokenInfo("WETH", 18), TokenInfo("DAI", 18)
    pool = UniV3Pool(usdc, weth, 0.05, usdc)
    df = bars.uni_frame(n, "1min", start=START, ticks=[200000 + 13 * i for i in range(n)])
    _add_statistic_column(df, pool)
    uni = UniLpMarket(MarketInfo("uni"), pool, data=df)
    aave = AaveV3Market(MarketInfo("aave", MarketTypeEnum.aave_v3), RISK_CSV, tokens=[weth, dai], data=_aave_frame(n, ["WETH", "DAI"]))
    dm = _deribit_market(START, n)
    prices, quote = get_price_from_data(df, pool)  # columns WETH, USDC ; quote USDC
    prices["DAI"] = D("0.999")
    prices["ETH"] = prices["WETH"]  # the Deribit market quotes in ETH
    eth = dm.quote_token
    a = bars.make_actuator([uni, aave, dm], prices, quote, {usdc: D(200000), weth: D(50), dai: D(1000), eth: D(20)})
    # symbolic amounts
    lp_base, lp_quote = ctx.dec("lp_base", D("0.01"), 10), ctx.dec("lp_quote", 1, 20000)
    sup, bor = ctx.dec("supply_weth", D("0.1"), 40), ctx.dec("borrow_dai", 1, 60000)
    buy = ctx.dec("buy_weth", D("0.001"), 5)
    dep = ctx.dec("deribit_deposit", 1, 15)
    n_opt = ctx.int_("option_contracts", 1, 300)
    rep = ctx.dec("repay_dai", 1, 60000)
    name = "ETH-29SEP23-1700-C"
    snaps = {}
    log = []

    def attempt(label, fn):
        try:
            fn()
            log.append(label + ":ok")
        except Exception as e:
            log.append(label + ":" + type(e).__name__)

    class Script(Strategy):
        def on_bar(self, snapshot):
            i = snapshot.row_id
            if i == 0:
                attempt("add", lambda: uni.add_liquidity_by_tick(199800, 200400, lp_base, lp_quote))
                attempt("supply", lambda: aave.supply(weth, sup, True))
                attempt("borrow", lambda: aave.borrow(dai, bor))
            if i == 1:
                attempt("buy", lambda: uni.buy(buy))
            if dm.is_open and not dm.positions and i >= 1:
                attempt("deposit", lambda: dm.deposit(dep))
                from .deribit import _dec

                attempt("option", lambda: dm.buy(name, _dec(n_opt)))
            if i == n - 1:
                attempt("repay", lambda: aave.repay(dai, rep))
                if uni.positions:
                    attempt("remove", lambda: uni.remove_liquidity(list(uni.positions)[0], collect=False))

        def after_bar(self, snapshot):
            i = snapshot.row_id
            row = uni.market_status.data
            ast = aave.market_status.data
            snaps[i] = dict(
                wal={t.name: x.balance for t, x in a.broker._assets.items()},
                pos={k: (v.liquidity, v.pending_amount0, v.pending_amount1, v.transferred) for k, v in uni._positions.items()},
                uni_price=row.price,
                sup={t.name: (s.base_amount, ast[t.name].liquidity_index) for t, s in aave._supplies.items()},
                bor={t.name: (b.base_amount, ast[t.name].variable_borrow_index) for t, b in aave._borrows.items()},
                cash=dm.balance,
                opt={k: (v.amount, dm.market_status.data.loc[k].mark_price if k in dm.market_status.data.index else None) for k, v in dm.positions.items()},
                deribit_open=dm.is_open,
            )

    a.strategy = Script()
    try:
        bars.run_quiet(a)
    except Exception as e:
        ctx.outcome("raised:" + type(e).__name__)
        ctx.check(f"the run raises no exception (got {type(e).__name__})", False, detail=str(e)[:300])
        return
    ctx.outcome(",".join(log))
    last_deribit = N(0)
    for i in range(n):
        st, sn = a.account_status[i], snaps[i]
        pr = {c: prices[c].iloc[i] for c in prices.columns}
        wallet = sum((N(sn["wal"][t]) * N(pr[t]) for t in sn["wal"]), N(0))
        # Uniswap: v3 closed forms at the bar's pool price + uncollected amounts, in the pool's quote token (= account quote)
        u = N(0)
        for k, (L, p0, p1, tr) in sn["pos"].items():
            if tr:
                continue
            c0, c1 = v3_amounts_per_liquidity(k.lower_tick, k.upper_tick, sn["uni_price"], True, 6, 18)
            u = u + (N(L) * c0 + N(p0)) + (N(L) * c1 + N(p1)) * N(sn["uni_price"])
        # Aave (quotes in USD; the account quote is the pool's USDC: converted by prices['USD']?) -- Aave values positions with the bar prices
        av = sum((N(b) * N(ix) * N(pr[t]) for t, (b, ix) in sn["sup"].items()), N(0)) - sum((N(b) * N(ix) * N(pr[t]) for t, (b, ix) in sn["bor"].items()), N(0))
        # Deribit: cash + options at mark (6-decimal marks), in ETH; between hourly bars the market reports its last open-bar value
        if sn["deribit_open"]:
            last_deribit = N(sn["cash"]) + sum((N(amt) * N(D(str(mk)).quantize(D("0.000001"))) for amt, mk in sn["opt"].values() if mk is not None), N(0))
            d_eth = last_deribit
        else:
            d_eth = None
        ms = st.market_status
        tol_u = N(D("1e-5")) + N(D("1e-18")) * u
        items = [
            (f"bar history: asset value == wallet balances x that bar's prices", ctx.close(N(st.asset_value), wallet, rel=N(RHO), abs_=N(RHO))),
            (f"bar history: Uniswap market value == closed-form amounts + uncollected, at that bar's pool price", ctx.close(N(ms[uni.market_info].net_value), u, rel=N(RHO), abs_=tol_u)),
            (f"bar history: Aave market value == scaled balances x that bar's indices x prices", ctx.close(N(ms[aave.market_info].net_value), av, rel=N(RHO), abs_=N(D("0.00011")))),
        ]
        if d_eth is not None:
            items.append((f"bar history: Deribit market value == cash + options at that bar's mark", ctx.close(N(ms[dm.market_info].net_value), d_eth, rel=N(RHO), abs_=N(RHO))))
            total = wallet + u + av * N(pr.get("USD", 1)) + d_eth * N(pr["ETH"])
            items.append((f"bar history: net value == wallet + every market converted by its quote token's price, each holding once", ctx.close(N(st.net_value), total, rel=N(RHO), abs_=tol_u + N(D("0.00011")))))
        ctx.check_all(items)
    ctx.check("CANARY the markets never hold anything", sand(*[N(a.account_status[i].net_value) == N(a.account_status[i].asset_value) for i in range(n)]))
