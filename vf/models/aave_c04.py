"""Aave part of C04 (rejected operations leave everything intact)."""
from decimal import Decimal

from ..harness import Scenario
from .aave import SHADOWS, SHAPES_QUICK, SHAPES_THOROUGH, sym_portfolio, warm_views, states_equal
from .aave_ops import OPS, apply_op, op_targets

D = Decimal


def aave_reject(ctx):
    p = ctx.p
    w = sym_portfolio(ctx, p["shape"])
    if p["closed"]:
        w.market.is_open = False
    views0 = warm_views(w.market) if p["warm"] else None
    before = w.raw()
    ok, label, args = apply_op(ctx, w, p["op"], p["tok"], p["tok2"])
    ctx.outcome("accepted" if ok else "rejected:" + label)
    after = w.raw()
    if not ok:
        states_equal(ctx, before, after, f"aave.{p['op']} rejected[{label}]")
        if views0 is not None:
            # positions and debts as the market REPORTS them (derived views) are part of what must be as before
            from ..symx import is_sym

            views1 = warm_views(w.market)
            items = []
            for k in views0:
                a, b = views0[k], views1.get(k)
                if not is_sym(a) and not is_sym(b) and isinstance(a, D) and isinstance(b, D) and not (a.is_finite() and b.is_finite()):
                    items.append((f"aave.{p['op']} rejected[{label}]: reported {_gen(k)} unchanged", str(a) == str(b)))
                else:
                    items.append((f"aave.{p['op']} rejected[{label}]: reported {_gen(k)} unchanged", a == b if b is not None else False))
            ctx.check_all(items)
    else:
        if p["closed"]:
            ctx.check(f"aave.{p['op']}: closed market rejects the operation", False)
        # reachability twin: an accepted operation does change something
        same = True
        for part in ("sup", "bor", "wal"):
            if set(before[part]) != set(after[part]):
                same = False
        if same:
            from ..symx import sand

            eqs = [before["wal"][k] == after["wal"][k] for k in before["wal"]]
            eqs += [before["sup"][k][0] == after["sup"][k][0] for k in before["sup"]]
            eqs += [before["sup"][k][1] == after["sup"][k][1] for k in before["sup"]]
            eqs += [before["bor"][k] == after["bor"][k] for k in before["bor"]]
            ctx.check("CANARY accepted operation changes nothing", sand(*eqs))
        else:
            ctx.check("CANARY accepted operation changes nothing", False)


def _gen(k):
    import re

    return re.sub(r"\[[A-Z.]+\]", "[<tok>]", k)


def scenarios(tier):
    shapes = SHAPES_QUICK if tier == "quick" else SHAPES_THOROUGH
    out = []
    for sn, shape in shapes.items():
        for op in OPS:
            for tok, tok2 in op_targets(shape, op):
                if tier == "quick" and sn not in ("A", "B", "F") and op in ("repay_coll",):
                    continue
                for warm in (True,) if tier == "quick" else (True, False):
                    out.append(
                        Scenario(
                            f"aave/{sn}/{op}/{tok}{'/' + tok2 if tok2 else ''}/{'warm' if warm else 'cold'}",
                            aave_reject,
                            params=dict(shape=shape, op=op, tok=tok, tok2=tok2, warm=warm, closed=False),
                            shadows=SHADOWS,
                            entry=(f"AaveV3Market.{op.replace('repay_coll', 'repay')}",),
                            max_paths=600,
                        )
                    )
    # closed market gate
    for op in OPS:
        shape = shapes["B"]
        tok, tok2 = ("DAI", "WETH") if op in ("repay", "repay_coll") else ("WETH", None)
        out.append(
            Scenario(
                f"aave/closed/{op}",
                aave_reject,
                params=dict(shape=shape, op=op, tok=tok, tok2=tok2, warm=False, closed=True),
                shadows=SHADOWS,
                entry=("write_func",),
                expect_outcomes=("rejected:DemeterError",),
            )
        )
    return out
