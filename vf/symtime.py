"""Symbolic datetime / timedelta proxies (seconds as z3 Int) and the `datetime` name shadow for demeter.strategy.trigger."""
from __future__ import annotations

import datetime as _dt

import z3

from . import symx
from .symx import Sym, SymBool, INT


def _secs(x):
    """Sym/int number of seconds of a timedelta-like"""
    if isinstance(x, SymTimedelta):
        return x.secs
    if isinstance(x, _dt.timedelta):
        s = x.total_seconds()
        if s != int(s):
            raise symx.Unsupported("sub-second timedelta")
        return int(s)
    return None


class SymTimedelta:
    def __init__(self, secs):
        self.secs = secs  # Sym INT or int

    def total_seconds(self):
        return self.secs

    def __add__(self, o):
        if isinstance(o, (_dt.datetime, SymDatetime)):
            return SymDatetime.of(o) + self
        s = _secs(o)
        if s is None:
            return NotImplemented
        return SymTimedelta(self.secs + s)

    __radd__ = __add__

    def __sub__(self, o):
        s = _secs(o)
        if s is None:
            return NotImplemented
        return SymTimedelta(self.secs - s)

    def __rsub__(self, o):
        if isinstance(o, (_dt.datetime, SymDatetime)):
            return SymDatetime.of(o) + SymTimedelta(-self.secs)
        s = _secs(o)
        if s is None:
            return NotImplemented
        return SymTimedelta(s - self.secs)

    def __mul__(self, k):
        return SymTimedelta(self.secs * k)

    __rmul__ = __mul__

    def _cmp(self, o, f):
        s = _secs(o)
        if s is None:
            return NotImplemented
        return f(self.secs, s)

    def __eq__(self, o):
        r = self._cmp(o, lambda a, b: a == b)
        return False if r is NotImplemented else r

    def __lt__(self, o):
        return self._cmp(o, lambda a, b: a < b)

    def __le__(self, o):
        return self._cmp(o, lambda a, b: a <= b)

    def __gt__(self, o):
        return self._cmp(o, lambda a, b: a > b)

    def __ge__(self, o):
        return self._cmp(o, lambda a, b: a >= b)

    __hash__ = None

    def __repr__(self):
        return "SymTimedelta(<sym>)"

    def __deepcopy__(self, memo):
        return self


EPOCH = _dt.datetime(2023, 1, 1)


class _Comp:
    """a calendar component (year, month, ...) of a SymDatetime: only usable to rebuild a datetime from the same parent"""

    def __init__(self, parent, field):
        self.parent, self.field = parent, field


US = 10**6


class SymDatetime:
    """EPOCH + secs seconds (+ micro microseconds, 0 unless the scenario asks for sub-second times)"""

    def __init__(self, secs, micro=0):
        self.secs = secs
        self.micro = micro  # Sym INT in [0, 999999] or int

    @staticmethod
    def of(x):
        if isinstance(x, SymDatetime):
            return x
        if isinstance(x, _dt.datetime):
            d = x.replace(tzinfo=None) - EPOCH
            total_us = d // _dt.timedelta(microseconds=1)
            return SymDatetime(total_us // US, total_us % US)
        raise TypeError(type(x))

    year = property(lambda self: _Comp(self, "year"))
    month = property(lambda self: _Comp(self, "month"))
    day = property(lambda self: _Comp(self, "day"))
    hour = property(lambda self: _Comp(self, "hour"))
    minute = property(lambda self: _Comp(self, "minute"))
    second = property(lambda self: self.secs % 60)
    microsecond = property(lambda self: self.micro)
    tzinfo = None

    def floor_minute(self):
        return SymDatetime(self.secs - self.secs % 60, 0)

    def replace(self, **kw):
        """datetime.replace for the fields a minute-rounding helper touches"""
        secs, micro = self.secs, self.micro
        for k, v in kw.items():
            if k == "second":
                secs = secs - secs % 60 + v
            elif k == "microsecond":
                micro = v
            elif k == "tzinfo" and v is None:
                pass
            else:
                raise symx.Unsupported(f"datetime.replace({k}=...) on a symbolic datetime")
        return SymDatetime(secs, micro)

    def _key(self):
        return self.secs * US + self.micro

    def __add__(self, o):
        s = _secs(o)
        if s is None:
            return NotImplemented
        return SymDatetime(self.secs + s, self.micro)

    __radd__ = __add__

    def __sub__(self, o):
        if isinstance(o, (_dt.datetime, SymDatetime)):
            other = SymDatetime.of(o)
            if not (isinstance(self.micro, int) and isinstance(other.micro, int) and self.micro == other.micro):
                raise symx.Unsupported("difference of datetimes with sub-second parts")
            return SymTimedelta(self.secs - other.secs)
        s = _secs(o)
        if s is None:
            return NotImplemented
        return SymDatetime(self.secs - s, self.micro)

    def __rsub__(self, o):
        if isinstance(o, _dt.datetime):
            return SymDatetime.of(o) - self
        return NotImplemented

    def _cmp(self, o, f):
        if isinstance(o, (_dt.datetime, SymDatetime)):
            return f(self._key(), SymDatetime.of(o)._key())
        return NotImplemented

    def __eq__(self, o):
        r = self._cmp(o, lambda a, b: a == b)
        return False if r is NotImplemented else r

    def __ne__(self, o):
        r = self._cmp(o, lambda a, b: a != b)
        return True if r is NotImplemented else r

    def __lt__(self, o):
        return self._cmp(o, lambda a, b: a < b)

    def __le__(self, o):
        return self._cmp(o, lambda a, b: a <= b)

    def __gt__(self, o):
        return self._cmp(o, lambda a, b: a > b)

    def __ge__(self, o):
        return self._cmp(o, lambda a, b: a >= b)

    __hash__ = None

    def __repr__(self):
        return "SymDatetime(<sym>)"

    def __deepcopy__(self, memo):
        return self

    def strftime(self, fmt):
        return "<sym-time>"


class _DatetimeMeta(type):
    def __instancecheck__(cls, inst):
        return isinstance(inst, (_dt.datetime, SymDatetime))

    def __call__(cls, *a, **k):
        comps = [x for x in a if isinstance(x, _Comp)]
        if comps:
            parent = comps[0].parent
            fields = [x.field for x in a if isinstance(x, _Comp)]
            if len(comps) == len(a) and all(c.parent is parent for c in comps) and fields == ["year", "month", "day", "hour", "minute"] and not k:
                return parent.floor_minute()
            raise symx.Unsupported("datetime(...) from mixed symbolic components")
        return _dt.datetime(*a, **k)

    def __getattr__(cls, name):
        return getattr(_dt.datetime, name)


class SDatetime(metaclass=_DatetimeMeta):
    """drop-in for the name `datetime` (the class) in a module"""


def install(module_name="demeter.strategy.trigger"):
    import importlib

    mod = importlib.import_module(module_name)
    mod.datetime = SDatetime
    return {module_name: ["datetime"]}


def sym_datetime(ctx, name, base: _dt.datetime, lo_s, hi_s, subsecond=False):
    """base + symbolic seconds in [lo_s, hi_s] (+ symbolic microseconds if subsecond); concrete mode: a real datetime"""
    s = ctx.int_(name, lo_s, hi_s)
    us = ctx.int_(name + "_us", 0, 999999) if subsecond else 0
    if ctx.sym:
        return SymDatetime(SymDatetime.of(base).secs + s, us)
    return base + _dt.timedelta(seconds=s, microseconds=us)


def sym_timedelta(ctx, name, lo_s, hi_s, multiple_of=1):
    """symbolic number of seconds (a multiple of `multiple_of`)"""
    k = ctx.int_(name, -(-lo_s // multiple_of), hi_s // multiple_of)
    if ctx.sym:
        return SymTimedelta(k * multiple_of)
    return _dt.timedelta(seconds=k * multiple_of)


def secs_of(x, base):
    """seconds from base (Sym or int) of a datetime-like"""
    if isinstance(x, SymDatetime):
        return x.secs - SymDatetime.of(base).secs
    return int((x - base).total_seconds())


def td_secs(x):
    if isinstance(x, SymTimedelta):
        return x.secs
    return int(x.total_seconds())
