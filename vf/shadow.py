"""Name shadows installed into demeter modules so that proxies survive Python's C boundary.

Only *names* in the module globals are rebound (`Decimal`, `UnitDecimal`, `int`, `float`, `math`, `str`);
no demeter source is edited or copied.  Every shadow behaves exactly like the original for concrete values.
"""
from __future__ import annotations

import builtins
import decimal
import importlib
import math as _math
import types
from decimal import Decimal as _D

from . import symx
from .symx import Sym, SymBool

_bi_int, _bi_float, _bi_str, _bi_isinstance = int, float, str, isinstance


class _DecMeta(type):
    def __instancecheck__(cls, inst):
        if _bi_isinstance(inst, Sym):
            return inst.kind == symx.DEC
        return _bi_isinstance(inst, _D)

    def __subclasscheck__(cls, sub):
        return issubclass(sub, _D)


class SymStr:
    """str(sym): only accepted back by Decimal(...) (the repo's to_decimal idiom)"""

    def __init__(self, s):
        self.s = s

    def __str__(self):
        return "<sym>"

    def __format__(self, spec):
        return "<sym>"


class SDecimal(metaclass=_DecMeta):
    """drop-in for the name `Decimal`"""

    def __new__(cls, v=0, *a):
        if _bi_isinstance(v, SymStr):
            v = v.s
        if _bi_isinstance(v, Sym):
            return symx.sym_dec(v)
        if _bi_isinstance(v, SymBool):
            return symx.sym_dec(v._as_sym())
        return _D(v, *a)

    from_float = staticmethod(lambda f: symx.sym_dec(f) if _bi_isinstance(f, Sym) else _D.from_float(f))
    sqrt = staticmethod(lambda x, *a: x.sqrt(*a))
    quantize = staticmethod(lambda x, *a, **k: x.quantize(*a, **k))


def SUnitDecimal(v, unit=""):
    if _bi_isinstance(v, Sym):
        return Sym(v.e if v.kind != symx.INT else symx._real(v.e), symx.DEC, unit)
    from demeter._typing import UnitDecimal

    return UnitDecimal(v, unit)


class _UnitDecMeta(type):
    def __instancecheck__(cls, inst):
        from demeter._typing import UnitDecimal

        if _bi_isinstance(inst, Sym):
            return inst._unit is not None
        return _bi_isinstance(inst, UnitDecimal)

    def __call__(cls, v, unit=""):
        return SUnitDecimal(v, unit)


class SUnitDecimalCls(metaclass=_UnitDecMeta):
    pass


class _IntMeta(type):
    def __instancecheck__(cls, inst):
        if _bi_isinstance(inst, Sym):
            return inst.kind == symx.INT
        return _bi_isinstance(inst, _bi_int)

    def __call__(cls, v=0, *a):
        if _bi_isinstance(v, (Sym, SymBool)):
            return symx.sym_int(v)
        return _bi_int(v, *a)

    def __eq__(cls, o):  # `type(x) == int`
        return o is _bi_int or o is cls

    def __hash__(cls):
        return hash(_bi_int)


class SInt(metaclass=_IntMeta):
    pass


class _FloatMeta(type):
    def __instancecheck__(cls, inst):
        if _bi_isinstance(inst, Sym):
            return inst.kind == symx.FLT
        return _bi_isinstance(inst, _bi_float)

    def __call__(cls, v=0.0):
        if _bi_isinstance(v, (Sym, SymBool)):
            return symx.sym_float(v)
        return _bi_float(v)

    def __eq__(cls, o):
        return o is _bi_float or o is cls

    def __hash__(cls):
        return hash(_bi_float)


class SFloat(metaclass=_FloatMeta):
    pass


class _StrMeta(type):
    def __instancecheck__(cls, inst):
        return _bi_isinstance(inst, _bi_str)

    def __call__(cls, v="", *a):
        if _bi_isinstance(v, Sym):
            return SymStr(v)
        return _bi_str(v, *a)


class SStr(metaclass=_StrMeta):
    pass


def _any_sym(*xs):
    return any(_bi_isinstance(x, (Sym, SymBool)) for x in xs)


class SMath(types.ModuleType):
    """drop-in for the module `math`"""

    def __init__(self):
        super().__init__("math")
        for k in dir(_math):
            if not k.startswith("__"):
                setattr(self, k, getattr(_math, k))

        def sqrt(x):
            return symx.sym_sqrt(symx.sym_float(x)) if _any_sym(x) else _math.sqrt(x)

        def log(x, *b):
            return symx.sym_log(x, *b) if _any_sym(x, *b) else _math.log(x, *b)

        def pow_(a, b):
            if _any_sym(a, b):
                a = symx.sym_float(a) if _bi_isinstance(a, Sym) else _bi_float(a)
                return symx.sym_float(a**b)
            return _math.pow(a, b)

        def floor(x):
            return x.__floor__() if _any_sym(x) else _math.floor(x)

        def ceil(x):
            return x.__ceil__() if _any_sym(x) else _math.ceil(x)

        def fabs(x):
            return symx.sym_float(abs(x)) if _any_sym(x) else _math.fabs(x)

        def isnan(x):
            return False if _any_sym(x) else _math.isnan(x)

        def isinf(x):
            return False if _any_sym(x) else _math.isinf(x)

        def exp(x):
            if _any_sym(x):
                return Sym(symx.uf("exp")(symx._real(x.e)), symx.FLT)
            return _math.exp(x)

        self.sqrt, self.log, self.pow, self.floor, self.ceil = sqrt, log, pow_, floor, ceil
        self.fabs, self.isnan, self.isinf, self.exp = fabs, isnan, isinf, exp


SMATH = SMath()

SHADOWED = {}


def install(module_names, names=("Decimal", "UnitDecimal", "int", "float", "math", "str")):
    """Rebind the given global names in each module (only if the module uses the name, except int/float which
    are builtins and are always shadowed). Returns the record of what was shadowed (for evidence)."""
    table = {
        "Decimal": SDecimal,
        "UnitDecimal": SUnitDecimalCls,
        "int": SInt,
        "float": SFloat,
        "math": SMATH,
        "str": SStr,
    }
    for mn in module_names:
        mod = importlib.import_module(mn)
        done = []
        for n in names:
            if n in ("int", "float", "str"):
                setattr(mod, n, table[n])
                done.append(n)
            elif hasattr(mod, n):
                setattr(mod, n, table[n])
                done.append(n)
        SHADOWED[mn] = done
    return SHADOWED


def null_tqdm():
    """tqdm -> null context (progress bars are not the subject of any property)."""
    import contextlib

    class _T:
        def __init__(self, *a, **k):
            pass

        def __enter__(self):
            return self

        def __exit__(self, *a):
            return False

        def update(self, *a, **k):
            pass

        def close(self):
            pass

        def set_description(self, *a, **k):
            pass

        def set_postfix(self, *a, **k):
            pass

    return _T
