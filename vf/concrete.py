"""Concrete side: executed as `python -m vf.concrete` in a fresh interpreter with no shadows installed.
Reads {"module","tier","scenario","jobs":[values...]} on stdin, prints one JSON line with the results."""
import json
import sys
import io
import contextlib


def main():
    payload = json.loads(sys.stdin.read())
    from vf import harness

    buf = io.StringIO()
    with contextlib.redirect_stdout(buf):
        out = harness.concrete_batch(payload["module"], payload["tier"], payload["scenario"], payload["jobs"])
    sys.stdout.write("\n" + json.dumps(out) + "\n")


if __name__ == "__main__":
    main()
