"""./check CNN --tier quick|thorough  -- run all scenarios of one property, decide, write evidence."""
from __future__ import annotations

import argparse
import importlib
import json
import multiprocessing as mp
import os
import re
import sys
import time
import traceback

from . import harness
from .harness import HARNESS_ERROR, VERIF_DIR

KNOWN = os.path.join(VERIF_DIR, "known_findings.json")


def load_known():
    if not os.path.exists(KNOWN):
        return []
    return json.load(open(KNOWN)).get("findings", [])


def known_match(known, prop, scenario, key):
    for k in known:
        if k.get("status", "open") != "open":
            continue  # fixed entries suppress nothing
        if k["property"] != prop:
            continue
        if k["key"] != key:
            continue
        rx = k.get("scenario_regex")
        if rx and not re.search(rx, scenario):
            continue
        return k
    return None


def _worker(args):
    prop_module, tier, name, seed = args
    try:
        mod = importlib.import_module(prop_module)
        scs = {s.name: s for s in mod.scenarios(tier)}
        sc = scs[name]
        res = harness.run_symbolic(sc, tier)
        res["canary"] = sc.canary
        res["relaxed"] = bool(getattr(sc, "relax_int", False)) or getattr(sc, "round_mode", "exact") == "uf" or bool(getattr(sc, "float_model", False))  # over-approximations: refutations / path witnesses are candidates
        res["expect_outcomes"] = list(sc.expect_outcomes)
        res["entry"] = list(sc.entry)
        res["params"] = {k: str(v) for k, v in sc.params.items()}
        # ---- concrete side: witnesses + candidate replays in ONE fresh interpreter
        jobs, meta = [], []
        paths = res["paths"]
        wit = 0
        for pi, p in enumerate(paths):
            if p.get("witness") and wit < sc.witness_cap:
                jobs.append(p["witness"])
                meta.append(("witness", pi, None))
                wit += 1
        seen_keys = {}
        for pi, p in enumerate(paths):
            for ob in p["obligations"]:
                if ob["status"] == "refuted" and "model" in ob and not ob["name"].startswith("CANARY"):
                    key = ob["name"]
                    if seen_keys.get(key, 0) < 3:  # up to 3 different models per key
                        seen_keys[key] = seen_keys.get(key, 0) + 1
                        jobs.append(dict(ob["model"], __key=key))
                        meta.append(("candidate", pi, key))
        t0 = time.time()
        try:
            outs = harness.spawn_concrete(prop_module, tier, name, jobs) if jobs else []
        except Exception as e:
            res["concrete_error"] = f"{type(e).__name__}: {e}"
            outs = []
        res["concrete_s"] = round(time.time() - t0, 3)
        res["witness_ok"] = 0
        res["witness_bad"] = []
        res["confirmed"] = {}
        res["unconfirmed"] = {}
        for (kind, pi, key), out in zip(meta, outs):
            p = paths[pi]
            if kind == "witness":
                ok, why = True, ""
                diverged = False
                pe, oe = (p.get("exception") or None), (out.get("exception") or None)
                if pe != oe and res["relaxed"] and all(e is None or e.startswith("Reject") for e in (pe, oe)):
                    # over-approximated run: the witness took another branch concretely and the SCENARIO (not the code under test) gave up
                    # on one side ("Reject: ..."); same treatment as diverging outcomes
                    diverged = True
                    res["witness_diverged"] = res.get("witness_diverged", 0) + 1
                    valid = {o["name"] for o in p["obligations"] if o["status"] == "valid"}
                    notvalid = {o["name"] for o in p["obligations"] if o["status"] != "valid"}
                    bad = [f for f in out["failed"] if f in valid and f not in notvalid and not f.startswith("CANARY")]
                    ok, why = (False, f"checks proved valid fail concretely: {bad}") if bad else (True, "")
                elif pe != oe:
                    ok, why = False, f"exception sym={p.get('exception')} conc={out.get('exception')} {out.get('exception_text','')}"
                elif p["outcomes"] != out["outcomes"]:
                    ok, why = False, f"outcomes sym={p['outcomes']} conc={out['outcomes']}"
                    if res["relaxed"] and not out.get("exception"):
                        # over-approximated integers: the path's model may sit on a rounding knife edge that the exact code resolves
                        # the other way. Not an encoding error; what was PROVED valid must still hold on the concrete run.
                        diverged = True
                        res["witness_diverged"] = res.get("witness_diverged", 0) + 1
                        valid = {o["name"] for o in p["obligations"] if o["status"] == "valid"}
                        notvalid = {o["name"] for o in p["obligations"] if o["status"] != "valid"}
                        bad = [f for f in out["failed"] if f in valid and f not in notvalid and not f.startswith("CANARY")]
                        ok, why = (False, f"checks proved valid fail concretely: {bad}") if bad else (True, "")
                else:
                    ok, why = harness.obs_agree(p.get("observations", []), out["observations"]) if not res["relaxed"] else (True, "")
                    if ok:
                        valid = {o["name"] for o in p["obligations"] if o["status"] == "valid"}
                        notvalid = {o["name"] for o in p["obligations"] if o["status"] != "valid"}
                        bad = [f for f in out["failed"] if f in valid and f not in notvalid and not f.startswith("CANARY")]  # a canary is a reachability twin, not a claim
                        if bad:
                            ok, why = False, f"checks proved valid fail concretely: {bad}"
                # witness-only checks (code that no proxy can enter): a concrete failure on a solver-chosen model
                for f in out.get("failed", []):
                    if f.startswith("WITNESS") and f not in res["confirmed"]:
                        res["confirmed"][f] = {"values": p["witness"], "path": pi, "outcomes": out["outcomes"]}
                res["witness_only_checks"] = res.get("witness_only_checks", 0) + sum(1 for c in out.get("checked", []) if c.startswith("WITNESS"))
                if ok and not diverged:
                    res["witness_ok"] += 1
                elif ok:
                    pass
                else:
                    res["witness_bad"].append({"path": pi, "why": why, "values": p["witness"], "tb": out.get("exception_tb", "")})
            else:
                if key in res["confirmed"]:
                    continue
                if key in out.get("failed", []):
                    res["confirmed"][key] = {"values": jobs[meta.index((kind, pi, key))], "path": pi, "outcomes": out["outcomes"]}
                    res["unconfirmed"].pop(key, None)
                else:
                    res["unconfirmed"].setdefault(key, []).append(
                        {"values": jobs[meta.index((kind, pi, key))], "conc": {k: out.get(k) for k in ("exception", "exception_text", "outcomes", "failed")}}
                    )
        for key in list(res["unconfirmed"]):
            if key in res["confirmed"]:
                res["unconfirmed"].pop(key)
        return res
    except BaseException as e:
        return {"scenario": name, "fatal": f"{type(e).__name__}: {e}", "tb": traceback.format_exc()[-3000:]}


def replay_file(path):
    rec = json.load(open(path))
    outs = harness.spawn_concrete(rec["module"], rec["tier"], rec["scenario"], [rec["values"]])
    out = outs[0]
    print(json.dumps(out, indent=1)[:4000])
    if rec["key"] in out.get("failed", []):
        print(f"REPRODUCED property={rec['property']} key={rec['key']}")
        return 1
    print("not reproduced")
    return 0


def main(argv=None):
    ap = argparse.ArgumentParser()
    ap.add_argument("prop")
    ap.add_argument("rest", nargs="*")
    ap.add_argument("--tier", default=os.environ.get("VERIF_TIER", "quick"))
    ap.add_argument("--only", default=None, help="regex on scenario names")
    ap.add_argument("--jobs", type=int, default=int(os.environ.get("VERIF_JOBS", "16")))
    ap.add_argument("--no-evidence", action="store_true")
    ap.add_argument("-v", action="store_true")
    a = ap.parse_args(argv)
    if a.prop == "replay":
        return replay_file(a.rest[0])
    prop = a.prop.upper()
    tier = a.tier
    seed = int(os.environ.get("VERIF_SEED", "0") or 0)
    t0 = time.time()
    prop_module = f"vf.props.{prop.lower()}"
    try:
        mod = importlib.import_module(prop_module)
        scs = mod.scenarios(tier)
    except Exception:
        print(f"HARNESS-ERROR: cannot build scenarios for {prop}\n{traceback.format_exc()}")
        return HARNESS_ERROR
    if a.only:
        scs = [s for s in scs if re.search(a.only, s.name)]
    names = [s.name for s in scs]
    assert len(set(names)) == len(names), "duplicate scenario names"
    ctx = mp.get_context("fork")
    work = [(prop_module, tier, n, seed) for n in names]
    results = []
    if a.jobs <= 1 or len(work) == 1:
        results = [_worker(w) for w in work]
    else:
        with ctx.Pool(min(a.jobs, len(work)), maxtasksperchild=1) as pool:
            for r in pool.imap_unordered(_worker, work, chunksize=1):
                results.append(r)
    results.sort(key=lambda r: names.index(r["scenario"]))

    known = load_known()
    harness_errors = []
    violations = []  # (scenario, key, values)
    known_hits = {}
    tot = dict(paths=0, decisions=0, obligations=0, discharged=0, refuted=0, inconclusive=0, witness_ok=0, queries=0, solver_s=0.0, aborted=0)
    functions = set()
    shadowed = {}
    samples = []
    exhaustive = True
    canaries_ok = 0
    extra_notes = []
    all_outcomes = set()
    for r in results:
        if "fatal" in r:
            harness_errors.append(f"{r['scenario']}: {r['fatal']}\n{r.get('tb','')}")
            continue
        functions.update(r["functions"])
        shadowed.update(r["shadowed"])
        tot["queries"] += r["queries"]
        tot["solver_s"] += r["solver_s"]
        exhaustive = exhaustive and r["complete"]
        if "concrete_error" in r:
            harness_errors.append(f"{r['scenario']}: concrete runner: {r['concrete_error']}")
        canary_seen = False
        outcomes_seen = set()
        for p in r["paths"]:
            tot["paths"] += 1
            tot["decisions"] += p.get("decisions", 0)
            if "abort" in p:
                if "Infeasible" not in p["abort"]:
                    tot["aborted"] += 1
                    extra_notes.append(f"{r['scenario']}: path aborted: {p['abort']}")
                continue
            if p.get("exception") and not p["exception"].startswith("Reject"):
                harness_errors.append(f"{r['scenario']}: exception escaped the scenario: {p.get('exception_text')}\n{p.get('exception_tb','')}")
            for o in p["outcomes"]:
                outcomes_seen.add(o)
                all_outcomes.add(o)
            for ob in p["obligations"]:
                if ob["name"].startswith("CANARY"):
                    if ob["status"] == "refuted":
                        canary_seen = True
                    continue
                tot["obligations"] += 1
                if ob["status"] == "valid":
                    tot["discharged"] += 1
                elif ob["status"] == "refuted":
                    tot["refuted"] += 1
                else:
                    tot["inconclusive"] += 1
        if r.get("canary"):
            if canary_seen:
                canaries_ok += 1
            else:
                harness_errors.append(f"{r['scenario']}: reachability canary '{r['canary']}' was never refuted (vacuous harness?)")
        for want in r.get("expect_outcomes", []):
            if not any(o.startswith(want) for o in outcomes_seen):
                harness_errors.append(f"{r['scenario']}: expected outcome '{want}' not reached on any path (seen: {sorted(outcomes_seen)[:8]})")
        tot["witness_ok"] += r.get("witness_ok", 0)
        tot["witness_only"] = tot.get("witness_only", 0) + r.get("witness_only_checks", 0)
        for wb in r.get("witness_bad", []):
            harness_errors.append(f"{r['scenario']}: ENCODING-MISMATCH on witness path {wb['path']}: {wb['why']} values={wb['values']}\n{wb.get('tb','')}")
        for key, info in r.get("confirmed", {}).items():
            if key.startswith("CANARY"):
                continue
            km = known_match(known, prop, r["scenario"], key)
            if km:
                known_hits.setdefault((km["key"], km.get("what", "")), []).append(r["scenario"])
            else:
                violations.append((r["scenario"], key, info["values"]))
        for key, tries in r.get("unconfirmed", {}).items():
            if key.startswith("CANARY"):
                continue
            if r.get("relaxed"):
                # integers were over-approximated (bracketed reals): a refutation that no concrete run reproduces is a spurious model
                tot["inconclusive"] += 1
                extra_notes.append(f"{r['scenario']}: '{key}': refuted only in the relaxed-integer over-approximation; {len(tries)} model(s) replayed on the unpatched code, none reproduces (inconclusive, not a violation)")
                continue
            if key.startswith("LEMMA"):
                # a proof step failed but no witness input violates the property's own tolerance: not proved, not refuted
                tot["inconclusive"] += 1
                extra_notes.append(f"{r['scenario']}: {key}: lemma not discharged and no concrete witness violates the stated tolerance (inconclusive)")
                continue
            harness_errors.append(
                f"{r['scenario']}: ENCODING-MISMATCH: solver refuted '{key}' but no model reproduced on the unpatched code: {json.dumps(tries[:1])[:1500]}"
            )
        # samples
        if len(samples) < 6:
            for p in r["paths"]:
                if "abort" in p or not p["obligations"]:
                    continue
                samples.append(
                    {
                        "scenario": r["scenario"],
                        "outcomes": p["outcomes"],
                        "path_decisions": p["decisions"],
                        "witness_model": p.get("witness"),
                        "obligations": [{"name": o["name"], "status": o["status"]} for o in p["obligations"][:12]],
                    }
                )
                break

    # ---- report
    os.makedirs(os.path.join(VERIF_DIR, "replays"), exist_ok=True)
    printed = set()
    for sc_name, key, values in violations:
        if key in printed:
            continue
        printed.add(key)
        fn = re.sub(r"[^A-Za-z0-9_.-]+", "_", f"{prop}_{key}")[:150] + ".json"
        path = os.path.join(VERIF_DIR, "replays", fn)
        json.dump({"property": prop, "module": prop_module, "tier": tier, "scenario": sc_name, "key": key, "values": values}, open(path, "w"), indent=1)
        print(f"VIOLATION property={prop} replay={path}")
        print(f"  scenario={sc_name} obligation={key}")
    for (key, what), scn in known_hits.items():
        print(f"KNOWN-FINDING: property={prop} {key} -- {what} [{len(scn)} scenario(s)]")
    for h in harness_errors[:20]:
        print("HARNESS-ERROR:", h)
    for n in sorted(set(extra_notes))[:10]:
        print("NOTE:", n)

    wall = time.time() - t0
    meta = getattr(mod, "META", {})
    level = meta.get("level", "model_checking")
    ev = {
        "property_id": prop,
        "tier": tier,
        "seed": seed,
        "level": level,
        "wall_s": round(wall, 2),
        "violations": len(printed),
        "coverage": {
            "states": tot["paths"],
            "transitions": max(tot["decisions"], tot["paths"]),
            "traces_validated_against_impl": tot["witness_ok"],
            "samples": samples[:6] or [{"note": "no path produced obligations"}],
            "obligations": tot["obligations"],
            "discharged": tot["discharged"],
            "refuted": tot["refuted"],
            "inconclusive": tot["inconclusive"],
            "aborted_paths": tot["aborted"],
            "exhaustive": bool(exhaustive and tot["aborted"] == 0),
            "scenarios": len(results),
            "reachability_canaries_refuted": canaries_ok,
            "solver_queries": tot["queries"],
            "solver_s": round(tot["solver_s"], 2),
            "solver": "z3 " + _z3v(),
            "functions_encoded": sorted(functions),
            "shadowed_names": shadowed,
            "bounds": meta.get("bounds", []),
            "outside_claim": meta.get("outside", []),
            "known_findings_hit": [k for k, _ in known_hits],
            "harness_errors": len(harness_errors),
            "witness_only_checks_not_solver_decided": tot.get("witness_only", 0),
            "checker_cmd": f"./check {prop} --tier {tier}",
            "trusted_base": meta.get("trusted_base", ["z3", "vf/symx.py proxies", "vf/shadow.py name shadows", "Decimal/float modelled as reals (DESIGN 6.1)"]),
            "explanation": meta.get("explanation", ""),
        },
        "assumptions": meta.get("assumptions", []),
    }
    ev["coverage"]["outcomes_seen"] = sorted(all_outcomes)[:300]
    if hasattr(mod, "static_report"):
        try:
            ev["coverage"]["static_report"] = mod.static_report(all_outcomes)
        except Exception as e:  # informational only
            ev["coverage"]["static_report"] = {"error": f"{type(e).__name__}: {e}"}
    if not a.no_evidence and not a.only:
        os.makedirs(os.path.join(VERIF_DIR, "evidence"), exist_ok=True)
        json.dump(ev, open(os.path.join(VERIF_DIR, "evidence", f"{prop}.json"), "w"), indent=1)
    print(
        f"{prop} tier={tier}: scenarios={len(results)} paths={tot['paths']} obligations={tot['obligations']} discharged={tot['discharged']} "
        f"refuted={tot['refuted']} inconclusive={tot['inconclusive']} aborted={tot['aborted']} witness_ok={tot['witness_ok']} "
        f"queries={tot['queries']} solver_s={tot['solver_s']:.1f} wall={wall:.1f}s exhaustive={ev['coverage']['exhaustive']}"
    )
    if a.v:
        for r in results:
            if "fatal" in r:
                continue
            print(f"  {r['scenario']}: paths={len(r['paths'])} queries={r['queries']} solver_s={r['solver_s']} wall={r['wall_s']} conc={r.get('concrete_s')}")
            for p in r["paths"]:
                bad = [o for o in p["obligations"] if o["status"] != "valid" and not o["name"].startswith("CANARY")]
                if bad or "abort" in p:
                    print("     ", p.get("outcomes"), p.get("abort", ""), [(o["name"], o["status"]) for o in bad][:6])
    if printed:
        return 1
    if harness_errors:
        return HARNESS_ERROR
    return 0


def _z3v():
    import z3

    return z3.get_version_string()


if __name__ == "__main__":
    sys.exit(main())
