#!/usr/bin/env python3
"""Regenerate MANIFEST.json from the property modules (vf/props/cNN.py: META dict). Run from /verif."""
import importlib, json, os, sys
sys.path.insert(0, os.path.dirname(os.path.abspath(__file__)))
props = [json.loads(l) for l in open("properties.jsonl")]
PENDING = "check not built yet (work in progress; see DESIGN.md section 7 for the planned harness)"
checks, na = [], []
for p in props:
    pid = p["id"]
    path = f"vf/props/{pid.lower()}.py"
    meta = None
    if os.path.exists(path):
        src = open(path).read()
        ns = {}
        # META is a literal dict at module level; evaluate only that assignment
        import ast
        tree = ast.parse(src)
        for node in tree.body:
            if isinstance(node, ast.Assign) and getattr(node.targets[0], "id", None) == "META":
                meta = ast.literal_eval(node.value)
    if meta is None or not meta.get("claimed", True):
        na.append({"property_id": pid, "reason": (meta or {}).get("na_reason", PENDING)})
        continue
    checks.append({
        "property_id": pid,
        "quick_cmd": f"./check {pid} --tier quick",
        "thorough_cmd": f"./check {pid} --tier thorough",
        "evidence_file": f"evidence/{pid}.json",
        "replay_cmd_template": "./check replay {path}",
        "engine": "symx",
        "technique": meta.get("technique", "symbolic execution of the real demeter classes with z3 (proxy values, all feasible paths within the stated bounds), counterexamples replayed on the unpatched code"),
        "level_claimed": {"category": meta.get("level", "model_checking"), "text": meta["level_text"], "design_ref": meta.get("design_ref", f"DESIGN.md section 7 / {pid}")},
        "level_note": meta.get("level_note", "Trusted: z3, the proxy arithmetic in vf/symx.py, the name shadows in vf/shadow.py; Decimal/float modelled as reals (DESIGN 6.1); bounds: " + "; ".join(meta.get("bounds", []))),
    })
m = {
    "version": 1,
    "setup_cmd": "./setup.sh",
    "hooks": {"guard": "ZELOS_ALPHA_DEMETER_VERIF", "enable": "no source hooks: all interposition is done by the harness on imported modules (vf/shadow.py)", "baseline_off_cmd": "cd /repo && /venv/bin/python -m pytest -ra -q -p no:cacheprovider --timeout=900 --continue-on-collection-errors", "source_commits": [], "add_only": True},
    "engines": [
        {"name": "symx", "path": "vf/symx.py", "serves_properties": [c["property_id"] for c in checks], "kind_free_text": "in-house symbolic executor: proxy numbers over z3 Real/Int run through the real demeter classes, DFS path enumeration by re-execution, z3 5.1 decides every branch and obligation; models replayed concretely in a fresh interpreter"},
    ],
    "checks": checks,
    "not_applicable": na,
    "notes": "Every check rebuilds its encoding from /repo's working tree on each run (the real modules are imported and executed symbolically). Exit 3 = harness error (never a verdict).",
}
json.dump(m, open("MANIFEST.json", "w"), indent=1)
print("claimed:", [c["property_id"] for c in checks])
